#!/bin/bash
# Offline setup: nothing to build ahead of time (every check builds /repo's
# working tree itself); verify the tools the checks need are present.
set -e
cd "$(dirname "$0")"
command -v tlc >/dev/null
command -v gcc >/dev/null
command -v rsync >/dev/null
/venv/bin/python -c "import sysconfig, json"
for f in spec/*.tla; do :; done
if [ "$1" = "--selftest" ]; then
  exec /venv/bin/python harness/selftest.py
fi
echo "setup ok"
