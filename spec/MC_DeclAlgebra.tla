---------------------------- MODULE MC_DeclAlgebra ----------------------------
(* Model-checking instance of DeclAlgebra.  Families of cases, chosen by the *)
(* constant Family; every case is one state at level 3 (ph = 2) and is       *)
(* dumped as one implementation test by the invariant Dump.  Levels 1 and 2  *)
(* (ph = 0, 1) only fan the enumeration out so that TLC's workers share it.  *)
(*   "shapes"   : nested / duplicated argument structures (templates x all   *)
(*                leaf assignments over LeafAtoms), class specs as leaves    *)
(*   "specs"    : every duplicate-free list L of the universe, as a plain    *)
(*                Declaration, in two noisy argument shapes, and as a class  *)
(*                specification / Provides object for every split           *)
(*                "declared D then inherited H" of L that elides nothing     *)
(*   "pairs"    : pairs (A, B) of such lists (all, or a seeded sample)       *)
(*   "file"     : argument structures read from a file (random structures    *)
(*                produced by the harness; code -> spec direction)           *)
EXTENDS DeclAlgebra, Json, IOUtils

VARIABLE ph

CONSTANTS Family,       \* "shapes" | "specs" | "pairs" | "file"
          MaxLen,       \* lists over 0..NI (root included) up to this length
          MaxLenNR,     \* lists over 1..NI (no root) up to this length
          LeafAtoms,    \* atoms used as leaves of the shape templates
          SampleMod,    \* pairs: keep (Code(a), Code(b)) with hash = 0 mod this
          SampleSeed,
          LawCheckMax   \* evaluate AddAdmIsLaw for unions up to this size

\* IA, IB(IA), IC, ID(IC), IE(IB, ID)
DagE == (0 :> <<>>) @@ (1 :> <<>>) @@ (2 :> <<1>>) @@ (3 :> <<>>)
        @@ (4 :> <<3>>) @@ (5 :> <<2, 4>>)
\* a diamond with a detached node: IA, IB(IA), IC(IA), ID(IB, IC), IE
DagD == (0 :> <<>>) @@ (1 :> <<>>) @@ (2 :> <<1>>) @@ (3 :> <<1>>)
        @@ (4 :> <<2, 3>>) @@ (5 :> <<>>)
\* a chain and a wide node: IA, IB(IA), IC(IB), ID, IE(ID, IA)
DagC == (0 :> <<>>) @@ (1 :> <<>>) @@ (2 :> <<1>>) @@ (3 :> <<2>>)
        @@ (4 :> <<>>) @@ (5 :> <<4, 1>>)

Lists == SeqsNoDup(0..NI, MaxLen) \cup SeqsNoDup(1..NI, MaxLenNR)

(* ---------------- argument shapes ---------------- *)
\* fixed class world for class-spec leaves: B implements (IB), C(B) (ID)
ShapeD == <<4>>
ShapeH == <<2>>
L(x) == Atom(x)
Template(t, l) ==
    CASE t = 1 -> <<L(l[1]), L(l[2]), L(l[3])>>
      [] t = 2 -> <<Tup(<<L(l[1]), L(l[2])>>), L(l[3]), L(l[1])>>
      [] t = 3 -> <<L(l[1]), Tup(<<L(l[2]), Tup(<<L(l[3]), L(l[4])>>)>>)>>
      [] t = 4 -> <<Decl(<<L(l[1]), L(l[2])>>), L(l[3]), Decl(<<L(l[4])>>)>>
      [] t = 5 -> <<Tup(<<Decl(<<L(l[1]), Tup(<<L(l[2])>>)>>), L(l[3])>>), L(l[4])>>
      [] t = 6 -> <<Decl(<<Decl(<<L(l[1]), L(l[2])>>), L(l[3])>>), Tup(<<>>), L(l[4])>>
      [] t = 7 -> <<Tup(<<Tup(<<L(l[1])>>), Tup(<<L(l[2]), L(l[3])>>)>>), Decl(<<>>), L(l[4])>>
      [] t = 8 -> <<Decl(<<Tup(<<L(l[1]), L(l[2])>>), L(l[1])>>), Tup(<<Decl(<<L(l[3]), L(l[4])>>)>>)>>
TemplateLeaves == [t \in 1..8 |-> IF t <= 2 THEN 3 ELSE 4]

ShapeCase(items) == [op |-> 0, d |-> ShapeD, h |-> ShapeH, items |-> items]

Grp(x) == [op |-> -1, d |-> x, h |-> <<>>, items |-> <<>>]
ShapesGroups == {Grp(<<t, x>>) : t \in 1..8, x \in LeafAtoms}
ShapesCases(grp) ==
    LET t == grp.d[1]
    IN {ShapeCase(Template(t, l)) :
          l \in {f \in [1..TemplateLeaves[t] -> LeafAtoms] : f[1] = grp.d[2]}}

(* ---------------- lists as operands of every kind ---------------- *)
Half(s) == Len(s) \div 2
\* two argument shapes that a list can be hidden in (nesting, declarations
\* as arguments, duplicates after the first occurrence)
Noisy(s, v) ==
    IF s = <<>> THEN (IF v = 1 THEN <<Tup(<<>>), Decl(<<>>)>>
                                ELSE <<Tup(<<Tup(<<>>)>>)>>)
    ELSE IF v = 1
       THEN <<Tup(AtomsOf(SubSeq(s, 1, Half(s)))),
              Decl(AtomsOf(SubSeq(s, Half(s) + 1, Len(s)))),
              Atom(s[1])>>
       ELSE <<Tup(<<Tup(AtomsOf(s))>>), Decl(<<Tup(AtomsOf(Reverse(s)))>>)>>

ImplSplits(s) == {k \in 0..Len(s) :
                    NoElisionImpl(SubSeq(s, 1, k), SubSeq(s, k + 1, Len(s)))}
ProvSplits(s) == {k \in 0..Len(s) :
                    NoElisionProv(SubSeq(s, 1, k), SubSeq(s, k + 1, Len(s)))}

SpecsGroups == {Grp(s) : s \in Lists}
SpecsCases(grp) ==
    LET s == grp.d
    IN {[op |-> 0, d |-> <<>>, h |-> <<>>, items |-> AtomsOf(s)]}
       \cup {[op |-> 0, d |-> <<>>, h |-> <<>>, items |-> Noisy(s, v)] : v \in 1..2}
       \cup {[op |-> 1, d |-> SubSeq(s, 1, k), h |-> SubSeq(s, k + 1, Len(s)),
              items |-> <<>>] : k \in ImplSplits(s)}
       \cup {[op |-> 2, d |-> SubSeq(s, 1, k), h |-> SubSeq(s, k + 1, Len(s)),
              items |-> <<>>] : k \in ProvSplits(s)}

(* ---------------- structures from a file ---------------- *)
FileCases == IF "CASES_FILE" \in DOMAIN IOEnv
             THEN ndJsonDeserialize(IOEnv.CASES_FILE) ELSE <<>>
FileGroups == {Grp(<<n>>) : n \in 0..(Len(FileCases) \div 64)}
FileCasesOf(grp) ==
    {[op |-> 0, d |-> ShapeD, h |-> ShapeH, items |-> FileCases[n].items,
      id |-> FileCases[n].id] :
        n \in {m \in DOMAIN FileCases : m \div 64 = grp.d[1]}}

Case == ph = 2
\* levels 1 and 2 print the world every case of the run lives in
Marker == PrintT(ToJson([grp |-> ph, ni |-> NI, ibases |-> IBases,
                         shape_d |-> ShapeD, shape_h |-> ShapeH]))
DumpSingle ==
    IF ~Case THEN Marker ELSE
    LET exact == CaseExact
    IN PrintT(ToJson([c     |-> cs,
                      iter  |-> CaseIter,
                      mem   |-> CaseMem,
                      dpb   |-> IF cs.op = 2 THEN cs.d ELSE <<>>,
                      flat  |-> exact,
                      adm   |-> IF exact = FAIL THEN CaseAdm ELSE {}]))

(* ---------------- pairs ---------------- *)
RECURSIVE Code(_)
Code(s) == IF s = <<>> THEN 1 ELSE (Head(s) + 1) + 7 * Code(Tail(s))
Sampled(a, b) ==
    SampleMod = 1 \/
    ((Code(a) * 31 + Code(b) * 17 + (Code(a) \div 7) * (Code(b) \div 5)
      + SampleSeed) % SampleMod) = 0

PairsGroups == {[a |-> a, b |-> <<>>] : a \in Lists}
PairsCases(grp) == {[a |-> grp.a, b |-> b] : b \in {x \in Lists : Sampled(grp.a, x)}}

Groups == CASE Family = "shapes" -> ShapesGroups
           [] Family = "specs"  -> SpecsGroups
           [] Family = "file"   -> FileGroups
           [] Family = "pairs"  -> PairsGroups
CasesOf(grp) == CASE Family = "shapes" -> ShapesCases(grp)
                  [] Family = "specs"  -> SpecsCases(grp)
                  [] Family = "file"   -> FileCasesOf(grp)
                  [] Family = "pairs"  -> PairsCases(grp)

Init == ph = 0 /\ cs = [x |-> 0]
MCNext == \/ ph = 0 /\ ph' = 1 /\ cs' \in Groups
          \/ ph = 1 /\ ph' = 2 /\ cs' \in CasesOf(cs)

\* the laws, on complete cases only
IterLawC      == Case => IterLaw
InLawC        == Case => InLaw
FlatLawC      == Case => FlatLaw
NormalizeLawC == Case => NormalizeLaw
SubLawC       == Case => SubLaw
AddLawC       == Case => AddLaw
AddAdmLawC    == Case => AddAdmIsLaw(LawCheckMax)
UsersLawC     == Case => UsersLaw


DumpPair ==
    IF ~Case THEN Marker ELSE
    PrintT(ToJson([a     |-> cs.a, b |-> cs.b,
                   sub   |-> SubSpec(cs.a, cs.b),
                   add   |-> AddAdm(cs.a, cs.b),
                   users |-> UsersApply,
                   also  |-> AlsoSpec(cs.a, cs.b),
                   ia    |-> ImplSplits(cs.a), pa |-> ProvSplits(cs.a),
                   ib    |-> ImplSplits(cs.b), pb |-> ProvSplits(cs.b)]))
=============================================================================
