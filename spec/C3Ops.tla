------------------------------- MODULE C3Ops -------------------------------
(***************************************************************************)
(* Pure operators shared by all modules: sequences helpers, reachability   *)
(* over an ordered-base function b, the C3 merge and the declarative C3    *)
(* linearisation (the definition CPython's type.mro() implements).         *)
(* Node 0 is the root specification zope.interface.Interface.              *)
(***************************************************************************)
EXTENDS Integers, Sequences, FiniteSets

Root == 0
FAIL == <<-1>>

SeqSet(s) == {s[i] : i \in DOMAIN s}
Min(S) == CHOOSE x \in S : \A y \in S : x <= y
IndexOf(s, x) == Min({i \in DOMAIN s : s[i] = x})
Without(s, x) == SelectSeq(s, LAMBDA y : y # x)
NoDup(s) == \A i, j \in DOMAIN s : i # j => s[i] # s[j]

RECURSIVE ReachSet(_, _)
ReachSet(b, n) == {n} \cup UNION {ReachSet(b, b[n][i]) : i \in DOMAIN b[n]}


\* Everything without an explicit base ultimately derives from Interface.
EffBases(b, n) == IF n = Root THEN <<>>
                  ELSE IF b[n] = <<>> THEN <<Root>> ELSE b[n]

InTail(x, s) == \E i \in DOMAIN s : i > 1 /\ s[i] = x

\* The C3 merge of a sequence of sequences; FAIL when no head is admissible.
RECURSIVE MergeC3(_)
MergeC3(seqs) ==
    LET ne == SelectSeq(seqs, LAMBDA s : s # <<>>)
    IN IF ne = <<>> THEN <<>>
       ELSE LET cands == {i \in DOMAIN ne :
                            \A j \in DOMAIN ne : ~InTail(Head(ne[i]), ne[j])}
            IN IF cands = {} THEN FAIL
               ELSE LET h == Head(ne[Min(cands)])
                        rest == MergeC3([j \in DOMAIN ne |-> Without(ne[j], h)])
                    IN IF rest = FAIL THEN FAIL ELSE <<h>> \o rest

\* C3 linearisation as a function of the (effective) ordered DAG only.
RECURSIVE C3(_, _)
C3(b, n) ==
    LET eb == EffBases(b, n)
        lins == [i \in DOMAIN eb |-> C3(b, eb[i])]
    IN IF \E i \in DOMAIN lins : lins[i] = FAIL THEN FAIL
       ELSE LET m == MergeC3(lins \o <<eb>>)
            IN IF m = FAIL THEN FAIL ELSE <<n>> \o m

HierConsistent(b, n) == C3(b, n) # FAIL

\* C3 over the literal base lists (no implicit root): ro.ro() on objects that
\* are not specifications, e.g. adapter registries.
RECURSIVE C3Raw(_, _)
C3Raw(b, n) ==
    LET lins == [i \in DOMAIN b[n] |-> C3Raw(b, b[n][i])]
    IN IF \E i \in DOMAIN lins : lins[i] = FAIL THEN FAIL
       ELSE LET m == MergeC3(lins \o <<b[n]>>)
            IN IF m = FAIL THEN FAIL ELSE <<n>> \o m

RECURSIVE Concat(_)
Concat(ss) == IF ss = <<>> THEN <<>> ELSE Head(ss) \o Concat(Tail(ss))

Reverse(s) == [i \in DOMAIN s |-> s[Len(s) + 1 - i]]

RECURSIVE LexLess(_, _)
LexLess(a, b) ==
    IF a = <<>> \/ b = <<>> THEN FALSE
    ELSE IF Head(a) < Head(b) THEN TRUE
    ELSE IF Head(a) > Head(b) THEN FALSE
    ELSE LexLess(Tail(a), Tail(b))


=============================================================================
