---------------------------- MODULE MC_LookupWalk ----------------------------
(* Model-checking instance of LookupWalk.tla.  The initial states are the    *)
(* test cases handed to the replay: registry contents (with the extendor    *)
(* order their registration history produced), the interrupting mutation,   *)
(* the walker, and the two admissible answers.                               *)
EXTENDS LookupWalk, Json

BothKinds == {"lookup", "subs"}

IsInitial == ~done /\ ~fin /\ ri = 1 /\ pi = 0 /\
             res = (IF kind = "lookup" THEN NONE ELSE <<>>)
DumpCase == IsInitial =>
    PrintT(ToJson([leaf |-> leaf, ext |-> ext, order |-> order, kind |-> kind,
                   mut |-> mut,
                   before |-> before, after |-> after]))
=============================================================================
