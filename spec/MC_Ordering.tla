---------------------------- MODULE MC_Ordering -----------------------------
(* Model-checking instance of Ordering.tla over the universes of            *)
(* MC_OrderingUniverse.tla (which must come first in the EXTENDS list, see  *)
(* there).  Every state (= test case) is dumped as one JSON record with the *)
(* expected observable computed by the specification.                       *)
EXTENDS MC_OrderingUniverse, Ordering, Json

(***************************************************************************)
(* dump                                                                    *)
(***************************************************************************)
\* an ordered pair that exercises more than "first letters differ": two
\* distinct keyed objects with equal or prefix-related names
IsPrefix(s, t) == Len(s) <= Len(t) /\ SubSeq(t, 1, Len(s)) = s
NonTrivial(x, y) ==
    /\ x # y /\ HasKey(x) /\ HasKey(y)
    /\ IsPrefix(NameTab[x], NameTab[y]) \/ IsPrefix(NameTab[y], NameTab[x])

Obs ==
    CASE ck = 0 ->
           [k |-> 0, implmodule |-> ImplMod,
            objs |-> [x \in Idx |->
                        [kind |-> Univ[x].kind, name |-> Univ[x].name,
                         module |-> Univ[x].module,
                         hasname |-> HasName(x), hasmod |-> HasMod(x),
                         kname |-> IF HasName(x) THEN NameTab[x] ELSE <<>>,
                         kmod |-> IF HasMod(x) /\ HasName(x) THEN ModTab[x]
                                  ELSE <<>>]]]
      [] ck = 1 ->
           [k |-> 1, i |-> ca, j |-> cb,
            op |-> [o \in Ops |-> Ref(o, ca, cb)],
            du |-> IF IsSpec(ca) THEN [o \in Ops |-> RefDunder(o, ca, cb)]
                   ELSE [o \in {} |-> 0],
            h |-> HashEqObs(ca, cb),
            nt |-> NonTrivial(ca, cb)]
      [] OTHER ->
           [k |-> 2, n |-> ca, inp |-> SortIn[ca],
            out |-> SortedBy("py", SortIn[ca])]

Dump == PrintT(ToJson(Obs))
=============================================================================
