-------------------------- MODULE MC_SpecGraph_hist -------------------------
(* Rebasing histories: any node may be re-based to any admissible ordered   *)
(* base list at any time, interleaved with attribute lookups that fill the  *)
(* memo.  Every generated transition is dumped for replay into the code.    *)
EXTENDS SpecGraph, Json

CONSTANTS MaxB, MaxDepth, DefChoices, WithGet,
          Twins     \* set of pairs <<a, b>>: distinct interface objects that
                    \* carry the same __name__ and __module__ and therefore
                    \* compare (and hash) equal, e.g. an interface and its
                    \* redefinition after a module reload.  The universe
                    \* never lets one specification reach both members of a
                    \* pair (the merge and the implied set conflate them by
                    \* design); what remains is that they are different
                    \* NODES of the graph with bases and dependents of their
                    \* own.

VARIABLE act
allvars == <<vars, act>>

SeqsNoDup(S, k) ==
    UNION {{s \in [1..m -> S] : NoDup(s)} : m \in 0..k}

Cands(n) == SeqsNoDup(AllNodes \ {n}, MaxB)

Init == /\ InitEmpty
        /\ defA \in DefChoices
        /\ act = [op |-> "init"]

TwinOK(b) == \A pr \in Twins : \A n \in Nodes :
                 ~(pr[1] \in ReachSet(b, n) /\ pr[2] \in ReachSet(b, n))

\* depth bound as an action guard (see MC_Registry.DepthOK)
DepthOK == TLCGet("level") < MaxDepth

Next == \/ \E n \in Nodes : \E nb \in Cands(n) :
              /\ DepthOK
              /\ SetBases(n, nb)
              /\ TwinOK(bases')
              /\ act' = [op |-> "SetBases", n |-> n, nb |-> nb]
        \/ \E n \in Nodes :
              /\ WithGet /\ DepthOK
              /\ Get(n)
              /\ act' = [op |-> "Get", n |-> n, res |-> GetResult(n)]

View == vars
Bound == TLCGet("level") <= MaxDepth

Key(b, d, m, a) == [bases |-> b, deps |-> [n \in AllNodes |-> DepNodes(d, n)],
                    memo |-> m, defA |-> a]

Obs == [sro   |-> sro,
        cons  |-> [n \in Nodes |-> HierConsistent(bases, n)],
        owner |-> [n \in Nodes |-> GetResult(n)],
        invs  |-> [n \in Nodes |-> InvariantOwners(n)],
        isoe  |-> [n \in AllNodes |-> implied[n]]]

\* Priming operators with RECURSIVE bodies is very slow in TLC: transitions are
\* dumped with state keys only; the observation of each state is dumped,
\* unprimed, once per distinct state by the invariant DumpObs; the harness
\* joins the two on the key.
Emit == PrintT(ToJson([kind |-> "edge", lvl  |-> TLCGet("level"),
                       from |-> Key(bases, deps, memo, defA),
                       act  |-> act',
                       to   |-> Key(bases', deps', memo', defA')]))
DumpObs == PrintT(ToJson([kind |-> "obs",
                          key |-> Key(bases, deps, memo, defA),
                          obs |-> Obs]))

\* FreshEquiv as an action property (last sentence of C02)
FreshAfterStep == [][sro' = FreshSro(bases')]_vars

AllIface3 == [n \in 1..3 |-> TRUE]
AllIface4 == [n \in 1..4 |-> TRUE]
Mixed3 == [n \in 1..3 |-> n <= 2]
Mixed4 == [n \in 1..4 |-> n <= 2]
AllIface5 == [n \in 1..5 |-> TRUE]
AllIface7 == [n \in 1..7 |-> TRUE]
Mixed5 == [n \in 1..5 |-> n <= 3]
Mixed6 == [n \in 1..6 |-> n <= 3]
Decl4 == [n \in 1..4 |-> FALSE]
Decl5 == [n \in 1..5 |-> n <= 1]
NoDef == {{}}
AnyDef == SUBSET Nodes
Def12 == {{1}, {1, 2}, {2}}
DefBoth == {{1, 2}}
NoTwins == {}
Twins12 == {<<1, 2>>}
=============================================================================
