--------------------------- MODULE TraceSpecGraph ---------------------------
(***************************************************************************)
(* Code -> spec conformance for the specification graph (C02, C03, C15):   *)
(* validates traces RECORDED from the real code -- seeded random programs  *)
(* over graphs larger than TLC generates from (up to 10 specifications of  *)
(* three kinds: interfaces, plain declarations, class specifications),     *)
(* with RE-ENTRANT re-basing: dependents that assign __bases__ of another  *)
(* (or the same) specification from inside a change notification.          *)
(*                                                                         *)
(* The state the specification carries is the PRIMARY state only: the      *)
(* ordered bases of every specification, which names and tags each one     *)
(* defines directly, which kind it is.  It has no caches, no dependents,   *)
(* no notification order: an assignment to __bases__ is `bases[n] := nb`,  *)
(* whether it is made at top level or from inside a notification (nested   *)
(* assignments are logged in the order they START; an outer assignment has *)
(* stored its bases before its notification goes out).  Every observation  *)
(* is made at a quiescent point (after the outermost call returned) and    *)
(* must equal what the declarative operators of C3Ops give for the current *)
(* bases:                                                                  *)
(*   C02  isOrExtends / extends = reachability (+ root), strict and not    *)
(*   C03  __sro__ is a valid linearisation, = C3 whenever C3 exists;       *)
(*        __iro__ = __sro__ restricted to interfaces                       *)
(*   C15  get(name) / queryTaggedValue(tag) / names(all) / tags answer     *)
(*        from the first interface of __iro__ that defines the name / tag  *)
(* "Fresh graph of the same shape" is implicit: the expectation never      *)
(* depends on the history.                                                 *)
(*                                                                         *)
(* A divergence is recorded in `mismatch` (INVARIANT NoMismatch names the  *)
(* event, the expected and the observed value); acceptance = every trace   *)
(* consumed to its end (the harness compares distinct states with events). *)
(***************************************************************************)
EXTENDS C3Ops, TLC, Json, IOUtils

Traces == ndJsonDeserialize(IOEnv.TRACE_FILE)

VARIABLES tid, l,
          bases,     \* [node -> Seq(node)]
          iface,     \* set of nodes that are interfaces
          names,     \* [node -> set of names defined directly]
          tags,      \* [node -> [tag -> value id]] (as a set of <<tag, val>>)
          mismatch

vars == <<tid, l, bases, iface, names, tags, mismatch>>

T == Traces[tid]
Ev == T.ev[l]
Nodes == {T.nodes[i] : i \in DOMAIN T.nodes}
NONE == -1

Bad(what, expected, got) ==
    <<"trace", tid, "event", l, what, "expected", expected, "observed", got>>

Step(b, i, nm, tg, mm) ==
    /\ bases' = b /\ iface' = i /\ names' = nm /\ tags' = tg
    /\ mismatch' = IF mismatch # <<>> THEN mismatch ELSE mm
    /\ l' = l + 1 /\ UNCHANGED tid

Same(mm) == Step(bases, iface, names, tags, mm)

IsIf(x) == x = Root \/ x \in iface

\* s is a valid linearisation of n's ancestry (SpecGraph.ValidLin)
ValidLin(n, s) ==
    /\ s # <<>>
    /\ s[1] = n
    /\ NoDup(s)
    /\ SeqSet(s) = ReachSet(bases, n) \cup {Root}
    /\ s[Len(s)] = Root
    /\ \A i, j \in DOMAIN s :
          (\E k \in DOMAIN bases[s[i]] : bases[s[i]][k] = s[j]) => i < j

ToSet(s) == {s[i] : i \in DOMAIN s}
PairsOf(s) == {<<s[i][1], s[i][2]>> : i \in DOMAIN s}

\* first interface of the order s that defines name / tag
Owner(s, nm) ==
    LET hits == {i \in DOMAIN s : IsIf(s[i]) /\ s[i] # Root /\ nm \in names[s[i]]}
    IN IF hits = {} THEN NONE ELSE s[Min(hits)]
TagVal(s, tg) ==
    LET hits == {i \in DOMAIN s : IsIf(s[i]) /\ s[i] # Root /\
                                  \E p \in tags[s[i]] : p[1] = tg}
    IN IF hits = {} THEN NONE
       ELSE (CHOOSE p \in tags[s[Min(hits)]] : p[1] = tg)[2]

\* ---- events
DoNew(e) ==
    Step([bases EXCEPT ![e.n] = e.bases],
         IF e.kind = "iface" THEN iface \cup {e.n} ELSE iface,
         [names EXCEPT ![e.n] = ToSet(e.names)],
         [tags EXCEPT ![e.n] = PairsOf(e.tags)], <<>>)

DoSetBases(e) == Step([bases EXCEPT ![e.n] = e.bases], iface, names, tags,
                      <<>>)

DoSetTag(e) ==
    Step(bases, iface, names,
         [tags EXCEPT ![e.n] = {p \in @ : p[1] # e.tag} \cup
                               {<<e.tag, e.val>>}], <<>>)

\* observation of one specification at a quiescent point
DoQuery(e) ==
    LET n == e.n
        anc == ReachSet(bases, n) \cup {Root}
        c3 == C3(bases, n)
        sro == e.sro
        mm ==
          IF ToSet(e.ext) # anc
             THEN Bad("isOrExtends", anc, e.ext)
          ELSE IF ToSet(e.sext) # anc \ {n}
             THEN Bad("extends (strict)", anc \ {n}, e.sext)
          ELSE IF ToSet(e.next) # anc
             THEN Bad("extends (strict=False)", anc, e.next)
          ELSE IF ~ValidLin(n, sro)
             THEN Bad("__sro__ is not a valid linearisation", anc, sro)
          ELSE IF c3 # FAIL /\ sro # c3
             THEN Bad("__sro__ differs from C3", c3, sro)
          ELSE IF e.iro # SelectSeq(sro, IsIf)
             THEN Bad("__iro__", SelectSeq(sro, IsIf), e.iro)
          ELSE IF e.consistent # (c3 # FAIL)
             THEN Bad("ro.is_consistent", c3 # FAIL, e.consistent)
          ELSE IF e.strict # (c3 # FAIL)
             THEN Bad("ro.ro(strict=True) succeeds", c3 # FAIL, e.strict)
          ELSE IF \E i \in DOMAIN e.get :
                     e.get[i][2] # Owner(e.iro, e.get[i][1])
             THEN Bad("get(name) owner",
                      [i \in DOMAIN e.get |-> Owner(e.iro, e.get[i][1])],
                      e.get)
          ELSE IF \E i \in DOMAIN e.nad :
                     e.nad[i][2] # Owner(e.iro, e.nad[i][1])
             THEN Bad("namesAndDescriptions(all) owner",
                      [i \in DOMAIN e.nad |-> Owner(e.iro, e.nad[i][1])],
                      e.nad)
          ELSE IF \E i \in DOMAIN e.tag :
                     e.tag[i][2] # TagVal(e.iro, e.tag[i][1])
             THEN Bad("queryTaggedValue",
                      [i \in DOMAIN e.tag |-> TagVal(e.iro, e.tag[i][1])],
                      e.tag)
          ELSE <<>>
    IN Same(mm)

Init == /\ tid \in DOMAIN Traces
        /\ l = 1
        /\ bases = [n \in Nodes \cup {Root} |-> <<>>]
        /\ iface = {}
        /\ names = [n \in Nodes \cup {Root} |-> {}]
        /\ tags = [n \in Nodes \cup {Root} |-> {}]
        /\ mismatch = <<>>

Next ==
    /\ l <= Len(T.ev)
    /\ CASE Ev.op = "new" -> DoNew(Ev)
         [] Ev.op = "setBases" -> DoSetBases(Ev)
         [] Ev.op = "setTag" -> DoSetTag(Ev)
         [] Ev.op = "query" -> DoQuery(Ev)
         [] Ev.op = "exception" -> Same(Bad("exception", {}, Ev.what))

NoMismatch == mismatch = <<>>
=============================================================================
