-------------------------- MODULE MC_SpecGraph_dag --------------------------
(* Every ordered-base DAG on N topologically numbered nodes (+ Interface),  *)
(* built fresh; every choice of the defining set for name "a".  Each state  *)
(* is dumped as one implementation test (C02, C03, C15).                    *)
EXTENDS SpecGraph, Json

CONSTANTS MaxB, DefChoices,
          DeclRootless  \* TRUE (with RootExplicit): declaration-like nodes may
                        \* be base-less and never name Interface themselves
                        \* (class specifications: implementedBy(object) has no
                        \* bases) while interfaces always list a base.  In
                        \* this universe "a C3 linearisation exists" is not
                        \* well defined (the literal graph and the identically
                        \* shaped class hierarchy, where everything derives
                        \* from object, differ), so only the unambiguous part
                        \* of C03 is asserted: SroValid.

SeqsNoDup(S, k) ==
    UNION {{s \in [1..m -> S] : NoDup(s)} : m \in 0..k}

Rootless(n) == DeclRootless /\ ~IsIface[n]
Lower(n) == {m \in AllNodes : /\ m < n
                               /\ (IsIface[n] => IsIf(m))
                               /\ (m = Root => RootExplicit /\ ~Rootless(n))}
BaseLists(n) == {s \in SeqsNoDup(Lower(n), MaxB) :
                    (RootExplicit /\ ~Rootless(n)) => s # <<>>}

RECURSIVE AllB(_)
AllB(k) == IF k = 0 THEN {[n \in {0} |-> <<>>]}
           ELSE {f @@ (k :> s) : f \in AllB(k - 1), s \in BaseLists(k)}

Init == /\ \E b \in AllB(N) : InitFrom(b)
        /\ defA \in DefChoices

Next == UNCHANGED vars

Obs == [bases |-> bases, sro |-> sro, defA |-> defA,
        cons  |-> [n \in Nodes |-> HierConsistent(bases, n)],
        owner |-> [n \in Nodes |-> GetResult(n)],
        invs  |-> [n \in Nodes |-> InvariantOwners(n)],
        isoe  |-> [n \in AllNodes |-> implied[n]]]

Dump == PrintT(ToJson(Obs))

AllIface4 == [n \in 1..4 |-> TRUE]
AllIface5 == [n \in 1..5 |-> TRUE]
AllIface3 == [n \in 1..3 |-> TRUE]
Mixed4 == [n \in 1..4 |-> n <= 2]
Mixed5 == [n \in 1..5 |-> n <= 3]
Mixed6 == [n \in 1..6 |-> n <= 3]
Def12 == {{1}, {1, 2}, {2}}
Decl4 == [n \in 1..4 |-> FALSE]
Decl5 == [n \in 1..5 |-> n <= 1]
NoDef == {{}}
AnyDef == SUBSET Nodes
=============================================================================
