------------------------ MODULE MC_OrderingUniverse -------------------------
(* The universes and sorted() inputs of MC_Ordering.tla: pure definitions   *)
(* that do not depend on Ordering.tla.  They live in a module of their own, *)
(* EXTENDed by MC_Ordering BEFORE Ordering, because TLC evaluates and       *)
(* caches zero-arity constant definitions in the order of the EXTENDS list: *)
(* Ordering's aliases (Univ == U with U <- MCU) must find these cached, or  *)
(* every reference re-evaluates the whole chain.                            *)
(*                                                                          *)
(* UName: "quick" / "thorough" are systematic grids (names x modules with   *)
(* the empty string, prefixes, equal names with different modules, Latin-1, *)
(* BMP and non-BMP letters whose little-endian byte order is the reverse of *)
(* their code-point order, duplicated keys, class specifications with equal *)
(* keys, an interface colliding with a class specification's key, None,     *)
(* foreign objects); "rand" draws names of length 0..4 from a seeded        *)
(* generator.                                                               *)
EXTENDS Integers, Sequences, TLC

CONSTANTS UName, Seed, NSets, MaxLen

\* letters, in code-point order of the first character of their image
NUL  == 1   \* U+0000   (C string functions stop here)
LDot == 2   \* "."
LQm  == 3   \* "?"
A    == 4   \* "a"
Z    == 5   \* "zope.interface.declarations" (one letter: see Ordering.tla)
E    == 6   \* U+00E9   Latin-1, 1 byte/char
L1   == 7   \* U+0101   UCS2 bytes 01 01
L2   == 8   \* U+0200   UCS2 bytes 00 02
FW   == 9   \* U+FF5E   BMP, above the surrogates (UTF-16 order differs)
N1   == 10  \* U+10001  UCS4 bytes 01 00 01 00
N2   == 11  \* U+10100  UCS4 bytes 00 01 01 00
MCImplModule == <<Z>>
TextLetters == <<NUL, LDot, LQm, A, Z, E, L1, L2, FW, N1, N2>>
\* a class __name__ cannot contain U+0000 (type() refuses it)
ClassLetters == <<LDot, LQm, A, Z, E, L1, L2, FW, N1, N2>>

Obj(k, n, m) == [kind |-> k, name |-> n, module |-> m]
Grid(k, ns, ms) ==
    [q \in 1..(Len(ns) * Len(ms)) |->
        Obj(k, ns[((q - 1) \div Len(ms)) + 1], ms[((q - 1) % Len(ms)) + 1])]

(***************************************************************************)
(* quick grid                                                              *)
(***************************************************************************)
QNames == << <<>>, <<A>>, <<A, NUL>>, <<A, A>>, <<A, L1>>, <<A, L2>>, <<E>>,
             <<L1>>, <<L2>>, <<FW>>, <<N1>>, <<N2>>, <<A, LDot, A>> >>
QMods  == << <<>>, <<A>>, <<A, L1>>, <<A, L2>>, <<Z>>, <<N1>>, <<N2>> >>

Extras ==
    <<  \* second objects for some keys
        Obj("iface", <<>>, <<>>), Obj("iface", <<A>>, <<A>>),
        Obj("iface", <<A, L1>>, <<A, L2>>), Obj("iface", <<N2>>, <<N1>>),
        \* class specifications: (class __name__, class __module__)
        Obj("impl", <<A>>, <<A>>), Obj("impl", <<A>>, <<A>>),
        Obj("impl", <<A>>, <<A>>),
        Obj("impl", <<>>, <<>>), Obj("impl", <<A>>, <<>>),
        Obj("impl", <<>>, <<A>>),
        Obj("impl", <<L1>>, <<A>>), Obj("impl", <<L2>>, <<A>>),
        Obj("impl", <<A>>, <<L1>>), Obj("impl", <<A>>, <<L2>>),
        Obj("impl", <<N1>>, <<N2>>), Obj("impl", <<N2>>, <<N2>>),
        Obj("impl", <<FW>>, <<A, NUL>>), Obj("impl", <<N1>>, <<FW>>),
        Obj("impl", <<L2>>, <<A>>),
        Obj("none", <<>>, <<>>),
        Obj("fnokey", <<>>, <<>>),
        Obj("fnomod", <<A>>, <<>>),
        Obj("fkeyed", <<A>>, <<A>>),          \* key of an interface
        Obj("fkeyed", <<L1>>, <<E>>),
        Obj("fclass", <<A>>, <<A, L1>>),      \* key of an interface
        Obj("fclass", <<E>>, <<E>>) >>

UQuick == Grid("iface", QNames, QMods) \o Extras

(***************************************************************************)
(* thorough grid: every name of length <= 2 over six letters               *)
(***************************************************************************)
TL == <<NUL, A, E, L1, L2, FW, N1, N2>>
TNames == << <<>> >> \o [q \in 1..8 |-> <<TL[q]>>] \o
          [q \in 1..64 |-> <<TL[((q - 1) \div 8) + 1], TL[((q - 1) % 8) + 1]>>]
          \o << <<A, LDot, A>> >>
TMods == << <<>>, <<A>>, <<A, L1>>, <<A, L2>>, <<Z>> >>
UThorough == Grid("iface", TNames, TMods) \o Extras

\* the transposed grid: few names, every module of length <= 2 (equal names:
\* the module decides)
T2Names == << <<>>, <<A>>, <<L1>>, <<N1>>, <<A, LDot, A>> >>
UThorough2 == Grid("iface", T2Names, TNames \o << <<Z>> >>) \o Extras

(***************************************************************************)
(* seeded generator (TLC integers are 32 bit: modulus 65537)               *)
(***************************************************************************)
Step(x) == (x * 75 + 74) % 65537
RECURSIVE Gen(_, _, _)
Gen(x, k, acc) == IF k = 0 THEN acc ELSE Gen(Step(x), k - 1, Append(acc, x))
\* in blocks of 100 (bounded recursion depth)
RECURSIVE Blocks(_, _)
Blocks(x, b) == IF b = 0 THEN <<>>
                ELSE LET blk == Gen(x, 100, <<>>)
                     IN blk \o Blocks(Step(blk[100]), b - 1)
StreamLen == 1200 + NSets * (MaxLen + 3)
Stream == Blocks(Step(Seed % 60000), (StreamLen \div 100) + 1)

RandStr(off, ls) ==
    [p \in 1..(Stream[off] % 5) |-> ls[(Stream[off + p] % Len(ls)) + 1]]
PoolSize == 9
Pool  == [q \in 1..PoolSize |-> IF q = 1 THEN <<>>
                                ELSE RandStr(5 * q, TextLetters)]
\* names usable for classes: the same draws without U+0000
PoolC == [q \in 1..PoolSize |-> IF q = 1 THEN <<>>
                                ELSE RandStr(5 * q, ClassLetters)]
RObj(k, q) ==
    Obj(k, (IF k \in {"impl", "fclass"} THEN PoolC ELSE Pool)
               [(Stream[100 + 2 * q] % PoolSize) + 1],
           Pool[(Stream[101 + 2 * q] % PoolSize) + 1])
URand == [q \in 1..44 |-> RObj("iface", q)] \o
         [q \in 1..10 |-> RObj("impl", 50 + q)] \o
         << Obj("none", <<>>, <<>>), Obj("fnokey", <<>>, <<>>),
            RObj("fnomod", 70), RObj("fkeyed", 1), RObj("fkeyed", 72),
            RObj("fclass", 74), RObj("fclass", 75) >>

MCU == CASE UName = "quick" -> UQuick
         [] UName = "thorough" -> UThorough
         [] UName = "thorough2" -> UThorough2
         [] OTHER -> URand

(***************************************************************************)
(* inputs of sorted()                                                      *)
(***************************************************************************)
MIdx == DOMAIN MCU
SpecSeq == SelectSeq([x \in MIdx |-> x], LAMBDA x : MCU[x].kind \in {"iface", "impl"})
NoneIdx == CHOOSE x \in MIdx : MCU[x].kind = "none"
KeyedIdx == CHOOSE x \in MIdx : MCU[x].kind = "fkeyed"
NS == Len(SpecSeq)
Rev(s) == [p \in 1..Len(s) |-> s[Len(s) + 1 - p]]
Rot(s, r) == [p \in 1..Len(s) |-> s[((p - 1 + r) % Len(s)) + 1]]
InsertAt(s, p, x) == SubSeq(s, 1, p - 1) \o <<x>> \o SubSeq(s, p, Len(s))

Whole == SpecSeq \o <<NoneIdx>>
FixedInputs ==
    << Whole, Rev(Whole), <<NoneIdx>> \o SpecSeq,
       Rot(Whole, NS \div 3), Rev(Rot(Whole, (2 * NS) \div 3)),
       InsertAt(SpecSeq, NS \div 2, KeyedIdx),
       Rev(InsertAt(SpecSeq, NS \div 4, KeyedIdx)) >>

\* k-th random sub-multiset: 2..MaxLen+1 draws with repetition from the
\* specifications; every second one gets None at a random position
Base(k) == 1200 + (k - 1) * (MaxLen + 3)
Multi(k) ==
    LET len == 2 + (Stream[Base(k)] % MaxLen)
        d == [p \in 1..len |-> SpecSeq[(Stream[Base(k) + 2 + p] % NS) + 1]]
    IN IF k % 2 = 0 THEN InsertAt(d, (Stream[Base(k) + 1] % (len + 1)) + 1,
                                  NoneIdx)
       ELSE d
MCSortInputs == FixedInputs \o [k \in 1..NSets |-> Multi(k)]

=============================================================================
