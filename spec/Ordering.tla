------------------------------ MODULE Ordering ------------------------------
(***************************************************************************)
(* C12: interfaces have a total, hash-consistent, process-independent     *)
(* order.                                                                  *)
(*                                                                         *)
(* Strings (``__name__`` / ``__module__``) are finite sequences over an    *)
(* ordered alphabet of small integers.  The harness maps every letter to a *)
(* non-empty Python string; the images of distinct letters start with      *)
(* distinct characters whose code-point order is the letter order, so the  *)
(* map is an order embedding of (Seq(Letter), lexicographic) into (str,    *)
(* code-point order) and string order is definable here.                   *)
(*                                                                         *)
(* The universe U is a sequence of object records; the identity of an      *)
(* object is its index.  Kinds:                                            *)
(*   "iface"  InterfaceClass(name, __module__=module); several distinct    *)
(*            objects may carry the same (name, module)                    *)
(*   "impl"   implementedBy(type(name, (), {"__module__": module})): an    *)
(*            Implements whose __name__ is computed by _implements_name    *)
(*            and whose __module__ is the class attribute ImplModule;      *)
(*            equality and hash are identity based                         *)
(*   "none"   None                                                         *)
(*   "fnokey" foreign object without __name__                              *)
(*   "fnomod" foreign object with __name__ whose __module__ raises         *)
(*            AttributeError                                               *)
(*   "fkeyed" foreign instance with both attributes                        *)
(*   "fclass" foreign class object (has both attributes)                   *)
(*                                                                         *)
(* Mechanism side (one operator per code step):                            *)
(*   TupleOp      CPython tuple rich comparison of two pairs               *)
(*   PyCompare    NameAndModuleComparisonMixin._compare                    *)
(*   PyMixinOp    NameAndModuleComparisonMixin.__lt__/__le__/__gt__/__ge__ *)
(*   PyIfaceOp    InterfaceBase.__eq__/__ne__ (Python) + the mixin         *)
(*   CIfaceOp     IB_richcompare (C): identity short cut, None, slot or    *)
(*                attribute fetch, "names equal ? modules : names"         *)
(*   ObjectOp     object.__eq__/__ne__/ordering defaults                   *)
(*   ImplName     declarations._implements_name                            *)
(*   Dunder       which of the above a type's slot runs                    *)
(*   BinOp        the interpreter's binary-operator protocol (forward,     *)
(*                reflected, identity fall-back / TypeError)               *)
(*   HashOf       InterfaceBase.__hash__ / IB__hash__ / object.__hash__    *)
(*   SortedBy     the stable sort determined by "<"                        *)
(* Declarative side: StrLt, KeyLt, KeyEq, Ref (the contract), the laws.    *)
(*                                                                         *)
(* A state is one test case: the universe (ck = 0), an ordered pair of     *)
(* objects (ck = 1) or one input of sorted() (ck = 2).                     *)
(***************************************************************************)
EXTENDS Integers, Sequences, FiniteSets, TLC

CONSTANTS U,          \* Seq([kind, name, module]) : the universe
          Dot,        \* the letter mapped to "."
          Qm,         \* the letter mapped to "?"
          ImplModule, \* Implements.__module__ as a letter sequence
          SortInputs, \* Seq(Seq(DOMAIN U)) : inputs of sorted()
          CVariant    \* "shipped" : IB_richcompare as in the tree
                      \* "modfirst": self-test, compares modules before
                      \*             names (the demonstrated surviving
                      \*             change of properties.jsonl)
                      \* "nameonly": self-test, answers < and > from the
                      \*             names alone (drops the module step)

VARIABLES ck, ca, cb
vars == <<ck, ca, cb>>

\* TLC re-evaluates a constant that the config substitutes by a definition
\* (U <- MCU) at every reference; a zero-arity alias is evaluated once.
Univ    == U
SortIn  == SortInputs
ImplMod == ImplModule

Idx   == DOMAIN Univ
Impls == {"c", "py"}
Ops   == {"lt", "le", "gt", "ge", "eq", "ne"}
OrdOps == {"lt", "le", "gt", "ge"}
NI == 2                                  \* NotImplemented (as _compare result)

Kind(x)    == Univ[x].kind
IsIface(x) == Kind(x) = "iface"
IsImpl(x)  == Kind(x) = "impl"
IsSpec(x)  == IsIface(x) \/ IsImpl(x)
IsNone(x)  == Kind(x) = "none"
HasName(x) == Kind(x) \in {"iface", "impl", "fnomod", "fkeyed", "fclass"}
HasMod(x)  == Kind(x) \in {"iface", "impl", "fnokey", "fkeyed", "fclass"}
HasKey(x)  == HasName(x) /\ HasMod(x)
KeylessForeign(x) == Kind(x) \in {"fnokey", "fnomod"}
KeyedForeign(x)   == Kind(x) \in {"fkeyed", "fclass"}

B(b) == IF b THEN "T" ELSE "F"
Swap(op) == CASE op = "lt" -> "gt" [] op = "gt" -> "lt"
              [] op = "le" -> "ge" [] op = "ge" -> "le"
              [] OTHER -> op

(***************************************************************************)
(* Strings: code-point lexicographic order (declarative) and the six       *)
(* operators of str (primitive of the mechanism side: CPython's            *)
(* unicode_compare is trusted to implement exactly this).                  *)
(***************************************************************************)
StrLt(s, t) ==
    \E k \in 1..Len(t) : /\ k - 1 <= Len(s)
                         /\ \A m \in 1..(k - 1) : s[m] = t[m]
                         /\ (k > Len(s) \/ s[k] < t[k])

StrOp(op, s, t) == CASE op = "lt" -> StrLt(s, t)
                     [] op = "gt" -> StrLt(t, s)
                     [] op = "le" -> s = t \/ StrLt(s, t)
                     [] op = "ge" -> s = t \/ StrLt(t, s)
                     [] op = "eq" -> s = t
                     [] op = "ne" -> s # t

(***************************************************************************)
(* declarations._implements_name(ob):                                      *)
(*   (getattr(ob, '__module__', '?') or '?') + '.' +                       *)
(*   (getattr(ob, '__name__', '?') or '?')                                 *)
(***************************************************************************)
ImplName(o) == (IF o.module = <<>> THEN <<Qm>> ELSE o.module) \o <<Dot>> \o
               (IF o.name = <<>> THEN <<Qm>> ELSE o.name)

\* what ``x.__name__`` / ``x.__module__`` evaluate to (where they exist)
NameOf(x) == IF IsImpl(x) THEN ImplName(Univ[x]) ELSE Univ[x].name
ModOf(x)  == IF IsImpl(x) THEN ImplMod ELSE Univ[x].module
NameTab == [x \in Idx |-> NameOf(x)]
ModTab  == [x \in Idx |-> ModOf(x)]

(***************************************************************************)
(* Declarative: the order of (name, module) pairs.                         *)
(***************************************************************************)
KeyEq(x, y) == NameTab[x] = NameTab[y] /\ ModTab[x] = ModTab[y]
KeyLt(x, y) == \/ StrLt(NameTab[x], NameTab[y])
               \/ NameTab[x] = NameTab[y] /\ StrLt(ModTab[x], ModTab[y])

KeyOp(op, x, y) == CASE op = "lt" -> KeyLt(x, y)
                     [] op = "gt" -> KeyLt(y, x)
                     [] op = "le" -> KeyLt(x, y) \/ KeyEq(x, y)
                     [] op = "ge" -> KeyLt(y, x) \/ KeyEq(x, y)
                     [] op = "eq" -> KeyEq(x, y)
                     [] op = "ne" -> ~KeyEq(x, y)

(***************************************************************************)
(* Mechanism: CPython's tuple rich comparison applied to                   *)
(* (self.__name__, self.__module__) and (other.__name__, other.__module__) *)
(* -- find the first index where the items differ (==); none: compare the  *)
(* lengths (2 and 2); else EQ/NE are decided, the other operators are      *)
(* applied to the differing items.                                         *)
(***************************************************************************)
TupleOp(op, x, y) ==
    LET n1 == NameTab[x]  m1 == ModTab[x]
        n2 == NameTab[y]  m2 == ModTab[y]
    IN IF ~StrOp("eq", n1, n2)
       THEN (CASE op = "eq" -> FALSE [] op = "ne" -> TRUE
               [] OTHER -> StrOp(op, n1, n2))
       ELSE IF ~StrOp("eq", m1, m2)
       THEN (CASE op = "eq" -> FALSE [] op = "ne" -> TRUE
               [] OTHER -> StrOp(op, m1, m2))
       ELSE op \in {"le", "ge", "eq"}

(***************************************************************************)
(* NameAndModuleComparisonMixin._compare (interface.py)                    *)
(***************************************************************************)
PyCompare(x, y) ==
    IF y = x THEN 0                                   \* other is self
    ELSE IF IsNone(y) THEN -1                         \* other is None
    ELSE IF ~HasName(y) \/ ~HasMod(y) THEN NI         \* AttributeError
    ELSE (IF TupleOp("gt", x, y) THEN 1 ELSE 0) -
         (IF TupleOp("lt", x, y) THEN 1 ELSE 0)       \* (n1 > n2) - (n1 < n2)

IntOp(op, c) == CASE op = "lt" -> c < 0  [] op = "le" -> c <= 0
                  [] op = "gt" -> c > 0  [] op = "ge" -> c >= 0
                  [] op = "eq" -> c = 0  [] op = "ne" -> c # 0

\* __lt__ / __le__ / __gt__ / __ge__ of the mixin
PyMixinOp(op, x, y) ==
    LET c == PyCompare(x, y) IN IF c = NI THEN "NI" ELSE B(IntOp(op, c))

\* InterfaceBase (Python): mixin + __eq__ + __ne__ (with its own identity
\* test before _compare)
PyIfaceOp(op, x, y) ==
    IF op = "ne" /\ y = x THEN "F" ELSE PyMixinOp(op, x, y)

\* object's defaults (Implements' ==/!=, None, foreign objects, classes):
\* __eq__ is identity or NotImplemented, __ne__ inverts __eq__ unless that
\* is NotImplemented, no ordering.
ObjectOp(op, x, y) ==
    CASE op = "eq" -> IF x = y THEN "T" ELSE "NI"
      [] op = "ne" -> IF x = y THEN "F" ELSE "NI"
      [] OTHER -> "NI"

(***************************************************************************)
(* IB_richcompare (_zope_interface_coptimizations.c)                       *)
(***************************************************************************)
CStepIdentity(op, x, y) ==     \* "decided" or "fall"
    IF x = y /\ op \in {"eq", "le", "ge"} THEN "T"
    ELSE IF x = y /\ op = "ne" THEN "F"
    ELSE "fall"

CStepNone(op) == IF op \in {"lt", "le", "ne"} THEN "T" ELSE "F"

\* slot access for an InterfaceBase, PyObject_GetAttr otherwise; an
\* AttributeError from either attribute gives NotImplemented
CStepFetchFails(y) == ~HasName(y) \/ ~HasMod(y)

CStepCompare(op, x, y) ==
    LET n1 == NameTab[x]  m1 == ModTab[x]
        n2 == NameTab[y]  m2 == ModTab[y]
    IN CASE CVariant = "modfirst" ->
              IF StrOp("eq", m1, m2) THEN StrOp(op, n1, n2)
              ELSE StrOp(op, m1, m2)
         [] CVariant = "nameonly" ->
              IF op \in {"lt", "gt"} THEN StrOp(op, n1, n2)
              ELSE IF StrOp("eq", n1, n2) THEN StrOp(op, m1, m2)
              ELSE StrOp(op, n1, n2)
         [] OTHER ->
              \* result = RichCompareBool(name, othername, Py_EQ);
              \* 0: RichCompareBool(name, othername, op)
              \* 1: RichCompareBool(module, othermod, op)
              IF StrOp("eq", n1, n2) THEN StrOp(op, m1, m2)
              ELSE StrOp(op, n1, n2)

CIfaceOp(op, x, y) ==
    LET s1 == CStepIdentity(op, x, y)
    IN IF s1 # "fall" THEN s1
       ELSE IF IsNone(y) THEN CStepNone(op)
       ELSE IF CStepFetchFails(y) THEN "NI"
       ELSE B(CStepCompare(op, x, y))

(***************************************************************************)
(* Which code a type's comparison slot runs, and the interpreter's         *)
(* protocol.  (No type of the universe is a subclass of another one, so    *)
(* the "reflected method of a subclass first" rule never applies.)         *)
(***************************************************************************)
Dunder(impl, op, x, y) ==
    CASE IsIface(x) -> IF impl = "c" THEN CIfaceOp(op, x, y)
                       ELSE PyIfaceOp(op, x, y)
      [] IsImpl(x)  -> IF op \in OrdOps THEN PyMixinOp(op, x, y)
                       ELSE ObjectOp(op, x, y)
      [] OTHER      -> ObjectOp(op, x, y)

BinOp(impl, op, x, y) ==
    LET r1 == Dunder(impl, op, x, y)
    IN IF r1 # "NI" THEN r1
       ELSE LET r2 == Dunder(impl, Swap(op), y, x)
            IN IF r2 # "NI" THEN r2
               ELSE CASE op = "eq" -> B(x = y)
                      [] op = "ne" -> B(x # y)
                      [] OTHER -> "TE"               \* TypeError

\* cache (zero-arity: evaluated once; nested functions over 1..N are
\* indexed as arrays by TLC).  Op is BinOp read from the cache.
OpTab == [impl \in Impls |-> [op \in Ops |->
            [x \in Idx |-> [y \in Idx |-> BinOp(impl, op, x, y)]]]]
Op(impl, op, x, y) == OpTab[impl][op][x][y]
LtTab == [impl \in Impls |-> OpTab[impl]["lt"]]
LeTab == [impl \in Impls |-> OpTab[impl]["le"]]

(***************************************************************************)
(* Hash.  InterfaceBase.__hash__ / IB__hash__: hash((name, module)),       *)
(* memoized in _v_cached_hash (names never change in this universe, so the *)
(* memo equals the fresh value); everything else hashes by identity.       *)
(* Abstractly a hash value is the thing it is a function of.               *)
(***************************************************************************)
HashOf(x) == IF IsIface(x) THEN <<"key", NameTab[x], ModTab[x], 0>>
             ELSE <<"id", <<>>, <<>>, x>>
\* observable: "T" the two hashes must be equal; "any" no requirement
HashEqObs(x, y) == IF HashOf(x) = HashOf(y) THEN "T" ELSE "any"

(***************************************************************************)
(* The contract (declarative).                                             *)
(***************************************************************************)
\* x a specification
RefSpec(op, x, y) ==
    IF IsNone(y) THEN B(op \in {"lt", "le", "ne"})
    ELSE IF KeylessForeign(y)
    THEN (CASE op = "eq" -> "F" [] op = "ne" -> "T" [] OTHER -> "TE")
    ELSE IF op \in OrdOps THEN B(KeyOp(op, x, y))
    ELSE IF IsImpl(x) /\ IsImpl(y) THEN B((op = "eq") = (x = y))
    ELSE \* two interfaces: key equality.  Interface against class
         \* specification / keyed foreign object: CrossKeyEq, the
         \* deviation interface.py documents ("class Foo(object) and class
         \* Foo(Interface) in the same file would compare equal"); the
         \* property does not constrain it, the model records what the code
         \* does so that a change is noticed.
         B(KeyOp(op, x, y))

Ref(op, x, y) ==
    IF IsSpec(x) THEN RefSpec(op, x, y)
    ELSE IF IsSpec(y) THEN RefSpec(Swap(op), y, x)
    ELSE CASE op = "eq" -> B(x = y) [] op = "ne" -> B(x # y)
           [] OTHER -> "TE"

\* direct call of the special method on a specification
RefDunder(op, x, y) ==
    IF IsImpl(x) /\ op \notin OrdOps THEN ObjectOp(op, x, y)
    ELSE IF KeylessForeign(y) THEN "NI"
    ELSE RefSpec(op, x, y)

(***************************************************************************)
(* sorted(): list.sort uses "<" only; for a strict weak order the result   *)
(* is the unique stable arrangement.  Position q goes before position p    *)
(* iff its element is smaller, or neither is smaller and q is earlier.     *)
(***************************************************************************)
Before(impl, inp, q, p) ==
    \/ LtTab[impl][inp[q]][inp[p]] = "T"
    \/ LtTab[impl][inp[p]][inp[q]] # "T" /\ q < p

Rank(impl, inp, p) ==
    1 + Cardinality({q \in DOMAIN inp : q # p /\ Before(impl, inp, q, p)})

\* (\o <<>> makes TLC materialise the function instead of re-evaluating
\* Rank at every application)
RankFn(impl, inp) == [p \in DOMAIN inp |-> Rank(impl, inp, p)] \o <<>>

\* the arrangement a rank function describes (0 where it is not a bijection)
Arrange(inp, rk) ==
    [r \in DOMAIN inp |->
        LET ps == {p \in DOMAIN inp : rk[p] = r}
        IN IF Cardinality(ps) = 1 THEN inp[CHOOSE p \in ps : TRUE] ELSE 0]

SortedBy(impl, inp) == Arrange(inp, RankFn(impl, inp))

\* inputs on which sorted() is defined at all
Sortable(inp) ==
    \A p, q \in DOMAIN inp : p # q =>
        \A impl \in Impls : LtTab[impl][inp[p]][inp[q]] \in {"T", "F"}

(***************************************************************************)
(* Cases                                                                   *)
(***************************************************************************)
Init == \/ ck = 0 /\ ca = 0 /\ cb = 0
        \/ ck = 1 /\ ca \in Idx /\ cb \in Idx
        \/ ck = 2 /\ ca \in DOMAIN SortIn /\ cb = 0
Next == UNCHANGED vars

TypeOK ==
    /\ ck \in 0..2
    /\ ck = 0 =>          \* the constants, checked once
        /\ \A x \in Idx :
              /\ Univ[x].kind \in {"iface", "impl", "none", "fnokey",
                                   "fnomod", "fkeyed", "fclass"}
              /\ DOMAIN Univ[x] = {"kind", "name", "module"}
        /\ \A k \in DOMAIN SortIn : \A p \in DOMAIN SortIn[k] :
              SortIn[k][p] \in Idx
        /\ CVariant \in {"shipped", "modfirst", "nameonly"}

Pair == ck = 1
x0 == ca
y0 == cb

(***************************************************************************)
(* Invariants: mechanism = contract                                        *)
(***************************************************************************)
\* every operator, both implementations, both operand orders (the state
\* space contains (y, x) as well)
MechIsRef ==
    Pair => \A impl \in Impls, op \in Ops :
                Op(impl, op, x0, y0) = Ref(op, x0, y0)

DunderIsRef ==
    Pair /\ IsSpec(x0) =>
        \A impl \in Impls, op \in Ops :
            Dunder(impl, op, x0, y0) = RefDunder(op, x0, y0)

\* the tuple comparison is the lexicographic order of the keys
TupleIsKeyOrder ==
    Pair /\ HasKey(x0) /\ HasKey(y0) =>
        \A op \in Ops : TupleOp(op, x0, y0) = KeyOp(op, x0, y0)

\* string order is a strict total order on the strings of the universe
StrOrderTotal ==
    LET Tri(s, t) == (IF StrLt(s, t) THEN 1 ELSE 0) + (IF s = t THEN 1 ELSE 0)
                     + (IF StrLt(t, s) THEN 1 ELSE 0) = 1
    IN /\ Pair /\ HasName(x0) /\ HasName(y0) => Tri(NameTab[x0], NameTab[y0])
       /\ Pair /\ HasMod(x0) /\ HasMod(y0) => Tri(ModTab[x0], ModTab[y0])

(***************************************************************************)
(* Invariants: the laws, stated on the mechanism's answers                 *)
(***************************************************************************)
Le(impl, x, y) == LeTab[impl][x][y] = "T"
Lt(impl, x, y) == LtTab[impl][x][y] = "T"

LawReflexive ==
    Pair /\ IsSpec(x0) /\ x0 = y0 =>
        \A impl \in Impls :
            /\ Le(impl, x0, x0) /\ ~Lt(impl, x0, x0)
            /\ Op(impl, "eq", x0, x0) = "T"
            /\ Op(impl, "ge", x0, x0) = "T"
            /\ Op(impl, "gt", x0, x0) = "F"

LawAntisymmetric ==
    Pair /\ IsSpec(x0) /\ IsSpec(y0) =>
        \A impl \in Impls :
            Le(impl, x0, y0) /\ Le(impl, y0, x0) => KeyEq(x0, y0)

LawTotal ==
    Pair /\ IsSpec(x0) /\ IsSpec(y0) =>
        \A impl \in Impls : Le(impl, x0, y0) \/ Le(impl, y0, x0)

\* "<" is the strict part of "<=": a strict total order on keys
LawStrict ==
    Pair /\ IsSpec(x0) /\ IsSpec(y0) =>
        \A impl \in Impls :
            /\ Lt(impl, x0, y0) = ~Le(impl, y0, x0)
            /\ Lt(impl, x0, y0) = (Le(impl, x0, y0) /\ ~KeyEq(x0, y0))

\* transitivity over all triples: "for all z, y <= z implies x <= z" is
\* stated on the precomputed upper sets (a subset test instead of a
\* quantifier per pair)
SpecIdx == {z \in Idx : IsSpec(z)}
LeUp == [impl \in Impls |-> [x \in Idx |->
            {z \in SpecIdx : OpTab[impl]["le"][x][z] = "T"}]]
LtUp == [impl \in Impls |-> [x \in Idx |->
            {z \in SpecIdx : OpTab[impl]["lt"][x][z] = "T"}]]
LawTransitive ==
    Pair /\ IsSpec(x0) /\ IsSpec(y0) =>
        \A impl \in Impls :
            /\ Le(impl, x0, y0) => LeUp[impl][y0] \subseteq LeUp[impl][x0]
            /\ Lt(impl, x0, y0) => LtUp[impl][y0] \subseteq LtUp[impl][x0]

\* two interfaces are equal exactly when their keys are equal; equal
\* interfaces hash equal
LawEqIffKey ==
    Pair /\ IsIface(x0) /\ IsIface(y0) =>
        \A impl \in Impls :
            (Op(impl, "eq", x0, y0) = "T") = KeyEq(x0, y0)

LawHashConsistent ==
    Pair /\ IsIface(x0) /\ IsIface(y0) =>
        \A impl \in Impls :
            Op(impl, "eq", x0, y0) = "T" => HashOf(x0) = HashOf(y0)

\* class specifications keep identity equality (and stay hashable by it)
LawImplIdentity ==
    Pair /\ IsImpl(x0) /\ IsImpl(y0) =>
        \A impl \in Impls :
            /\ (Op(impl, "eq", x0, y0) = "T") = (x0 = y0)
            /\ Op(impl, "eq", x0, y0) = "T" => HashOf(x0) = HashOf(y0)

\* != is the negation of ==, for every pair of the universe
LawNeIsNotEq ==
    Pair => \A impl \in Impls :
        /\ Op(impl, "eq", x0, y0) \in {"T", "F"}
        /\ Op(impl, "ne", x0, y0) \in {"T", "F"}
        /\ (Op(impl, "ne", x0, y0) = "T") = (Op(impl, "eq", x0, y0) = "F")

\* reflected comparisons agree (also in raising TypeError)
LawReflected ==
    Pair => \A impl \in Impls, op \in Ops :
        Op(impl, op, x0, y0) = Op(impl, Swap(op), y0, x0)

\* every specification sorts before None
LawBeforeNone ==
    Pair /\ IsSpec(x0) /\ IsNone(y0) =>
        \A impl \in Impls :
            /\ Lt(impl, x0, y0) /\ Le(impl, x0, y0)
            /\ ~Lt(impl, y0, x0) /\ ~Le(impl, y0, x0)
            /\ Op(impl, "eq", x0, y0) = "F"

\* NotImplemented exactly for key-less foreign operands; the operators
\* then raise TypeError (ordering) or fall back to identity (==, !=)
LawNotImplemented ==
    Pair /\ IsSpec(x0) =>
        \A impl \in Impls, op \in OrdOps :
            /\ (Dunder(impl, op, x0, y0) = "NI") = KeylessForeign(y0)
            /\ (Op(impl, op, x0, y0) = "TE") = KeylessForeign(y0)
            /\ KeylessForeign(y0) => /\ Op(impl, "eq", x0, y0) = "F"
                                     /\ Op(impl, "ne", x0, y0) = "T"

\* both implementations answer alike
LawImplsAgree ==
    Pair => \A op \in Ops :
        /\ Op("c", op, x0, y0) = Op("py", op, x0, y0)
        /\ Dunder("c", op, x0, y0) = Dunder("py", op, x0, y0)

\* sorted(): defined, a permutation (ranks are a bijection: the unique
\* stable arrangement exists), ordered by key with None last, stable, and
\* the same for both implementations
LawSortedUnique ==
    ck = 2 =>
        LET inp == SortIn[ca]
            rk == RankFn("py", inp)
            out == Arrange(inp, rk)
            n == Len(inp)
        IN /\ Sortable(inp)
           /\ Arrange(inp, RankFn("c", inp)) = out
           /\ {rk[p] : p \in DOMAIN inp} = 1..n
           /\ \A p, q \in DOMAIN inp :          \* stable
                 (/\ p < q
                  /\ LtTab["py"][inp[p]][inp[q]] # "T"
                  /\ LtTab["py"][inp[q]][inp[p]] # "T")
                 => rk[p] < rk[q]
           /\ \A r \in 1..(n - 1) :
                 LET a == out[r]  b == out[r + 1]
                 IN /\ a \in Idx /\ b \in Idx
                    /\ ~IsNone(a)
                    /\ IsNone(b) \/ KeyLt(a, b) \/ KeyEq(a, b)

PairLaws == /\ MechIsRef /\ DunderIsRef /\ TupleIsKeyOrder /\ StrOrderTotal
            /\ LawReflexive /\ LawAntisymmetric /\ LawTotal /\ LawStrict
            /\ LawTransitive /\ LawEqIffKey /\ LawHashConsistent
            /\ LawImplIdentity /\ LawNeIsNotEq /\ LawReflected
            /\ LawBeforeNone /\ LawNotImplemented /\ LawImplsAgree
=============================================================================
