----------------------------- MODULE MC_Registry ----------------------------
(* Model-checking instance of Registry.tla.  One module, several configs:   *)
(* which mutators / queries are enabled and over which key universes is     *)
(* chosen by constants, so that the independent dimensions (walk order,     *)
(* caches, chains, subscriptions, bookkeeping) are exhausted separately.    *)
EXTENDS Registry, Json, SequencesExt

CONSTANTS Muts,        \* subset of {"reg","unreg","sub","unsub","rebuild",
                       \*            "regbases","specbases","regsame"}
          Queries,     \* subset of {"lookup","lookupAll","subs"}
          RegKeys,     \* set of <<req, prov, name>> usable for registration
          SubKeys,     \* set of <<req, prov>> usable for subscription
          LookKeys,    \* set of <<req, prov>> queried / observed
          ValMode,     \* "fresh": value = least unused; "any": all of Vals
          MaxLive,     \* bound on live registrations + subscription entries
          MaxDepth,
          InitSBases,  \* initial bases of the required specifications
          InitRBases,  \* initial bases of the registries
          RBaseChoices,\* set of <<g, bases>> for SetRegBases
          SBaseChoices,\* set of <<s, bases>> for SetSpecBases
          ObsEvery,    \* the full observation is dumped every n-th level
          ViaAll       \* TRUE: the entry point that performs a lookup step is
                       \* part of the action (all of them are explored);
                       \* FALSE: the replay draws one per step

VARIABLE act
allvars == <<vars, act>>

Live == LET RECURSIVE Sum(_)
            Sum(S) == IF S = {} THEN 0
                      ELSE LET x == CHOOSE y \in S : TRUE
                           IN Len(x.vals) + Sum(S \ {x})
        IN Cardinality(UNION {regs[g] : g \in Regs}) +
           Sum(UNION {subs[g] : g \in Regs})

Used == {e.val : e \in UNION {regs[g] : g \in Regs}} \cup
        UNION {SeqSet(e.vals) : e \in UNION {subs[g] : g \in Regs}}

RegKeySeq == SetToSeq(RegKeys)
SubKeySeq == SetToSeq(SubKeys)
RegKeyVal(k) == CHOOSE i \in DOMAIN RegKeySeq : RegKeySeq[i] = k
SubKeyVal(k) == 1000 + (CHOOSE i \in DOMAIN SubKeySeq : SubKeySeq[i] = k)
\* "keyed": the value is a function of the key (distinct per key; the same
\* value again when a subscription is repeated); "any": every value of Vals
RegValChoices(k) == IF ValMode = "keyed" THEN {RegKeyVal(k)} ELSE Vals
SubValChoices(k) == IF ValMode = "keyed" THEN {SubKeyVal(k)} ELSE Vals

\* The depth bound is a guard of every action (not a CONSTRAINT): TLC then
\* never generates the out-of-bound frontier, whose states would otherwise be
\* re-generated -- and re-dumped -- once per incoming transition.
\* lookup, lookup1, adapter_hook, queryAdapter and queryMultiAdapter read and
\* fill the SAME cache (Registry.QLookup); which of them asks is observable
\* only in the implementation
ViasOf(req) == IF ~ViaAll THEN {""}
               ELSE {"lookup", "lookup_list", "lookup_lazy", "multi"} \cup
                    (IF Len(req) = 1 THEN {"lookup1", "hook", "queryAdapter"}
                     ELSE {})
BadName == "<not a string>"
ValueErr == -3
DepthOK == TLCGet("level") < MaxDepth
OnM(m) == m \in Muts /\ DepthOK
OnQ(q) == q \in Queries /\ DepthOK

Init == /\ InitReg(InitSBases, InitRBases)
        /\ act = [op |-> "init"]

Next ==
    \/ \E g \in Regs, k \in RegKeys : \E v \in RegValChoices(k) :
          /\ OnM("reg") /\ Live < MaxLive
          /\ Register(g, k[1], k[2], k[3], v)
          /\ act' = [op |-> "register", g |-> g, req |-> k[1],
                     prov |-> k[2], name |-> k[3], val |-> v]
    \/ \E g \in Regs, k \in RegKeys : \E v \in RegValChoices(k) :
          /\ OnM("regsame")
          /\ RegisterSame(g, k[1], k[2], k[3], v)
          /\ act' = [op |-> "register", g |-> g, req |-> k[1],
                     prov |-> k[2], name |-> k[3], val |-> v]
    \/ \E g \in Regs, k \in RegKeys, v \in {NONE} \cup
             (IF ValMode = "any" THEN Vals ELSE {}) :
          /\ OnM("unreg")
          /\ (ValMode = "keyed" => Find(regs[g], k[1], k[2], k[3]) # {})
          /\ Unregister(g, k[1], k[2], k[3], v)
          /\ act' = [op |-> "unregister", g |-> g, req |-> k[1],
                     prov |-> k[2], name |-> k[3], val |-> v]
    \/ \E g \in Regs, k \in SubKeys : \E v \in SubValChoices(k) :
          /\ OnM("sub") /\ Live < MaxLive
          /\ Subscribe(g, k[1], k[2], v)
          /\ act' = [op |-> "subscribe", g |-> g, req |-> k[1],
                     prov |-> k[2], val |-> v]
    \/ \E g \in Regs, k \in SubKeys, v \in {NONE} \cup
             (IF ValMode = "any" THEN Vals ELSE {}) :
          /\ OnM("unsub")
          /\ (ValMode = "keyed" => SFind(subs[g], k[1], k[2]) # {})
          /\ Unsubscribe(g, k[1], k[2], v)
          /\ act' = [op |-> "unsubscribe", g |-> g, req |-> k[1],
                     prov |-> k[2], val |-> v]
    \/ \E g \in Regs :
          /\ OnM("rebuild")
          /\ Rebuild(g)
          /\ act' = [op |-> "rebuild", g |-> g]
    \/ \E g \in Regs :
          /\ OnM("relookup")
          /\ Relookup(g)
          /\ act' = [op |-> "relookup", g |-> g]
    \/ \E c \in RBaseChoices :
          /\ OnM("regbases")
          /\ SetRegBases(c[1], c[2])
          /\ act' = [op |-> "setRegBases", g |-> c[1], nb |-> c[2]]
    \/ \E c \in SBaseChoices :
          /\ OnM("specbases")
          /\ SetSpecBases(c[1], c[2])
          /\ act' = [op |-> "setSpecBases", s |-> c[1], nb |-> c[2]]
    \/ \E g \in Regs, k \in LookKeys, nm \in Names :
          /\ OnQ("lookup")
          /\ k[2] # PNone
          /\ QLookup(g, k[1], k[2], nm)
          /\ \E via \in ViasOf(k[1]) :
                act' = [op |-> "lookup", g |-> g, req |-> k[1],
                        prov |-> k[2], name |-> nm, via |-> via,
                        adm |-> Admissible(g, k[1], k[2], nm)]
    \* a non-string name is rejected on every path, in every cache state, and
    \* changes nothing (C08)
    \/ \E g \in Regs, k \in LookKeys :
          /\ OnQ("lookup")
          /\ k[2] # PNone
          /\ UNCHANGED vars
          /\ act' = [op |-> "lookup", g |-> g, req |-> k[1],
                     prov |-> k[2], name |-> BadName, adm |-> {ValueErr}]
    \/ \E g \in Regs, k \in LookKeys :
          /\ OnQ("lookupAll")
          /\ k[2] # PNone
          /\ QLookupAll(g, k[1], k[2])
          /\ act' = [op |-> "lookupAll", g |-> g, req |-> k[1],
                     prov |-> k[2],
                     adm |-> [nm \in AllNames(g, k[1], k[2]) |->
                                 Admissible(g, k[1], k[2], nm)]]
    \/ \E g \in Regs, k \in LookKeys :
          /\ OnQ("subs")
          /\ QSubs(g, k[1], k[2])
          /\ act' = [op |-> "subscriptions", g |-> g, req |-> k[1],
                     prov |-> k[2],
                     adm |-> SubsAdmSet(g, k[1], k[2])]

View == vars
Bound == /\ TLCGet("level") <= MaxDepth
         /\ \A g \in Regs, p \in Provs : pcount[g][p] <= MaxLive + 1

\* observable projection of a state: for every observed key the set of
\* admissible answers computed from PRIMARY state only
ObsOf(g) ==
    [look |-> {[req |-> k[1], prov |-> k[2], name |-> nm,
                adm |-> Admissible(g, k[1], k[2], nm)] :
                  k \in {kk \in LookKeys : kk[2] # PNone}, nm \in Names}
              \cup
              {[req |-> k[1], prov |-> k[2], name |-> BadName,
                adm |-> {ValueErr}] : k \in {kk \in LookKeys : kk[2] # PNone}},
     subs |-> {[req |-> k[1], prov |-> k[2],
                adm |-> SubsAdmSet(g, k[1], k[2])] : k \in LookKeys},
     regs |-> regs[g],
     sreg |-> subs[g]]

Key == [sbases |-> sbases, regs |-> regs, subs |-> subs, ext |-> ext,
        pcount |-> pcount, rbases |-> rbases, rro |-> rro, vro |-> vro,
        vdirty |-> vdirty, cache |-> cache, mcache |-> mcache,
        scache |-> scache, watch |-> watch]

\* Priming an operator whose body applies RECURSIVE operators is extremely
\* slow in TLC, so transitions are dumped with keys only (plain primed
\* variables) and the observation of each state is dumped, unprimed, by an
\* invariant; the harness joins the two on the state key.
Emit == PrintT(ToJson([kind |-> "edge", lvl |-> TLCGet("level"),
                       from |-> Key, act |-> act', to |-> Key']))
DumpObs == PrintT(ToJson([kind |-> "obs", key |-> Key,
                          obs |-> [g \in Regs |-> ObsOf(g)]]))

DumpState == PrintT(ToJson([regs |-> regs, sreg |-> subs,
                             obs |-> [g \in Regs |-> ObsOf(g)]]))

LR == {k[1] : k \in LookKeys}
LP == {k[2] : k \in LookKeys} \ {PNone}
LPS == {k[2] : k \in LookKeys}
InvWalkIsBest == WalkIsBest(LR, LP)
InvSubsExact == SubsExact(LR, LPS)
InvEntryPointsAgree == EntryPointsAgree(LR, LP)

(***************************************************************************)
(* Universes used by the configurations                                    *)
(***************************************************************************)
\* required specs: 0 Interface, 1 RA, 2 RB(RA), 3 RC(RA), 4 RD(RB, RC)
SB_Diamond == (0 :> <<>>) @@ (1 :> <<>>) @@ (2 :> <<1>>) @@ (3 :> <<1>>) @@
              (4 :> <<2, 3>>)
\* provided: 1 PA, 2 PB(PA), 3 PC(PA)
PB_Fork == << <<>>, <<1>>, <<1>> >>
\* provided tree: 1 PRoot, 2 PBase(PRoot), 3 PSibling(PRoot), 4 PDerived(PBase)
PB_Tree4 == << <<>>, <<1>>, <<1>>, <<2>> >>
EqId == [v \in 1..4 |-> v]
Eq12 == [v \in 1..3 |-> IF v <= 2 THEN 1 ELSE 2]   \* 1 == 2, 3 distinct
NamesEN == {"", "n"}
NamesE == {""}

\* ---- order (C04): one registry, arity 0..2
RB_One == <<<<>>>>
Reqs012 == {<<>>} \cup {<<a>> : a \in 0..3} \cup
           {<<a, b>> : a \in 1..3, b \in 1..3}
RegKeysOrder == {<<r, p, nm>> : r \in Reqs012, p \in 1..3, nm \in NamesEN}
LookKeysOrder == {<<r, p>> : r \in {<<>>, <<2>>, <<4>>, <<4, 4>>, <<2, 4>>,
                                    <<4, 2>>, <<3, 3>>}, p \in {1, 2}}
SubKeysOrder == {<<r, p>> : r \in {<<>>, <<0>>, <<1>>, <<2>>, <<3>>, <<1, 1>>,
                                   <<2, 1>>, <<1, 3>>, <<2, 3>>},
                            p \in {0, 1, 2}}
LookKeysSubs == {<<r, p>> : r \in {<<>>, <<2>>, <<4>>, <<4, 4>>, <<2, 4>>},
                            p \in {0, 1, 2}}

\* ---- cache (C05/C08): base + derived registry, tiny key universe
RB_Two == << <<>>, <<1>> >>
RegKeysCache == {<< <<1>>, 1, "" >>, << <<2>>, 1, "" >>, << <<2>>, 2, "" >>,
                 << <<1>>, 1, "n" >>, << <<2, 1>>, 1, "" >>}
SubKeysCache == {<< <<1>>, 1 >>, << <<2>>, 0 >>}
LookKeysCache == {<< <<2>>, 1 >>, << <<2, 2>>, 1 >>, << <<2>>, 0 >>}
SB_Chain2 == (0 :> <<>>) @@ (1 :> <<>>) @@ (2 :> <<1>>)
SBaseChoicesCache == {<<2, <<>> >>, <<2, <<1>> >>}
RBaseChoicesCache == {<<2, <<>> >>, <<2, <<1>> >>}

\* ---- bookkeeping (C09): overwrite, identical / equal values, pruning
RegKeysBooks == {<< <<1>>, 1, "" >>, << <<2>>, 1, "" >>, << <<2>>, 1, "n" >>,
                 << <<2, 1>>, 2, "" >>}
SubKeysBooks == {<< <<1>>, 1 >>, << <<2>>, 0 >>, << <<0>>, 1 >>}
LookKeysBooks == {<< <<2>>, 1 >>, << <<2, 2>>, 1 >>, << <<2>>, 0 >>}

\* ---- chain (C06): four registries, one registration each
RB_None4 == << <<>>, <<>>, <<>>, <<>> >>
RB_Chain3 == << <<>>, <<1>>, <<2>> >>
RB_None3 == << <<>>, <<>>, <<>> >>
RegKeysChain == {<< <<1>>, 1, "" >>}
SubKeysChain == {<< <<1>>, 1 >>}
LookKeysChain == {<< <<1>>, 1 >>}
SB_One == (0 :> <<>>) @@ (1 :> <<>>)
RBaseChoices3 == {<<g, b>> : g \in 1..3,
                    b \in {<<>>} \cup {<<h>> : h \in 1..3}
                         \cup {<<h, k>> : h \in 1..3, k \in 1..3}}
RBaseChoices3s == {<<g, b>> : g \in 1..3,
                     b \in {<<>>} \cup {<<h>> : h \in 1..3}}
RBaseChoices4 == {<<g, b>> : g \in 1..4,
                    b \in {<<>>} \cup {<<h>> : h \in 1..4}
                         \cup {<<h, k>> : h \in 1..4, k \in 1..4}}
\* ---- extendor order (C04): provided tree, every registration order
RegKeysExt == {<< <<1>>, p, "" >> : p \in 1..4}
LookKeysExt == {<< <<1>>, 1 >>, << <<1>>, 2 >>}
\* ---- watched specifications of multi-adapter keys (C05)
SB_Three == (0 :> <<>>) @@ (1 :> <<>>) @@ (2 :> <<1>>) @@ (3 :> <<>>)
RegKeysWatch == {<< <<2, 1>>, 1, "" >>}
SubKeysWatch == {<< <<2, 1>>, 1 >>}
LookKeysWatch == {<< <<2>>, 1 >>, << <<2, 3>>, 1 >>}
SBaseChoicesWatch == {<<3, <<>> >>, <<3, <<1>> >>}
\* ---- registry diamond (C06): 1 top, 2 apex, 3 left, 4 right, 5 bottom
RB_None5 == << <<>>, <<>>, <<>>, <<>>, <<>> >>
RB_Diamond5 == << <<>>, <<>>, <<2>>, <<2>>, <<3, 4>> >>
RBaseChoicesDiamond == {<<2, <<>> >>, <<2, <<1>> >>, <<3, <<>> >>, <<3, <<2>> >>,
                        <<4, <<2>> >>, <<5, <<3, 4>> >>, <<5, <<4, 3>> >>,
                        <<5, <<3>> >>}
RegKeysDiamond == {<< <<1>>, 1, "" >>}
\* ---- cached subscriptions under partial unsubscription (C07)
SubKeysSubCache == {<< <<1>>, 1 >>, << <<1>>, 0 >>}
LookKeysSubCache == {<< <<1>>, 1 >>, << <<1>>, 0 >>}
\* ---- the shared empty declaration as a looked-up specification (C02/C05):
\* spec 2 has no bases (the harness maps it to zope.interface's _empty
\* singleton); registrations are for Interface / None and for RA
SB_Empty == (0 :> <<>>) @@ (1 :> <<>>) @@ (2 :> <<>>)
RegKeysEmpty == {<< <<0>>, 1, "" >>, << <<1>>, 1, "" >>, << <<0>>, 1, "n" >>}
LookKeysEmpty == {<< <<2>>, 1 >>, << <<1>>, 1 >>, << <<2, 1>>, 1 >>}
\* ---- a base that is reachable directly AND through another base (C06)
RB_Overlap3 == << <<>>, <<1>>, <<2, 1>> >>
RBaseChoicesOverlap == {<<2, <<>> >>, <<2, <<1>> >>, <<3, <<2, 1>> >>,
                        <<3, <<1>> >>, <<3, <<2>> >>, <<3, <<1, 2>> >>}
\* ---- sibling provided interfaces under subscriptions (C07)
SubKeysSib == {<< <<1>>, p >> : p \in 1..3}
LookKeysSib == {<< <<1>>, 1 >>, << <<1>>, 2 >>}
\* ---- re-basing an ANCESTOR of a looked-up specification (C05): 3 RC(RB(RA));
\* only RC is ever looked up, only RB is re-based, registrations are for RA
SB_Chain3 == (0 :> <<>>) @@ (1 :> <<>>) @@ (2 :> <<1>>) @@ (3 :> <<2>>)
RegKeysAnc == {<< <<1>>, 1, "" >>, << <<2>>, 1, "" >>}
SubKeysAnc == {<< <<1>>, 1 >>}
LookKeysAnc == {<< <<3>>, 1 >>}
SBaseChoicesAnc == {<<2, <<>> >>, <<2, <<1>> >>}
\* ---- a chain whose TOP gets a new base (C06/C07): 1 top, 2(1), 3(2), 4 extra
RB_Chain3Extra == << <<>>, <<1>>, <<2>>, <<>> >>
RBaseChoicesTop == {<<1, <<>> >>, <<1, <<4>> >>, <<2, <<1>> >>, <<2, <<>> >>}
\* ---- class declarations only (C05): 1 = implementedBy(A), 2 = implementedBy(B)
\* based on it or not; the interface part of every order is (Interface,)
RegKeysDecl == {<< <<1>>, 1, "" >>}
SubKeysDecl == {<< <<1>>, 1 >>}
LookKeysDecl == {<< <<2>>, 1 >>}
\* ---- several keys with one provided interface, several values per key (C07)
SubKeysRebuild == {<< <<1>>, 1 >>, << <<2>>, 1 >>, << <<2>>, 2 >>}
LookKeysRebuild == {<< <<2>>, 1 >>, << <<1>>, 1 >>}
None == {}
=============================================================================
