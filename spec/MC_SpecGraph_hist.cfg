CONSTANTS
  N = 3
  MaxB = 2
  MaxDepth = 4
  IsIface <- Mixed3
  DefChoices <- NoDef
  WithGet = FALSE
  RootExplicit = FALSE
  PinnedC03 = FALSE
  PinnedC15 = FALSE
INIT Init
NEXT Next
VIEW View
CONSTRAINT Bound
ACTION_CONSTRAINT Emit
CHECK_DEADLOCK FALSE
INVARIANT TypeOK
INVARIANT ImpliedIsReach
INVARIANT SroSetIsReach
INVARIANT DepsExact
INVARIANT FreshEquiv
INVARIANT SroValid
INVARIANT SroIsC3
INVARIANT StrictIff
INVARIANT MemoSound
INVARIANT AccessorsAgree
