----------------------------- MODULE Components -----------------------------
(***************************************************************************)
(* zope.interface.registry.Components (registry.py): the four listings     *)
(* (_utility_registrations, _adapter_registrations,                         *)
(* _subscription_registrations, _handler_registrations), the two           *)
(* underlying adapter registries (.utilities, .adapters) restricted to     *)
(* what Components stores in them, the per-(provided, component)           *)
(* subscription counter of _UtilityRegistrations with its switch from a    *)
(* dict to the non-hashing _UnhashableComponentCounter, the events passed  *)
(* to zope.interface.registry.notify by the last call and that call's      *)
(* return value.                                                           *)
(*                                                                         *)
(* Mechanism side: UR_Register / UR_Unregister (_UtilityRegistrations),    *)
(*   RegisterUtility ... UnregisterHandler, Reinit (one action per public  *)
(*   method, one LET step per statement of the method).                    *)
(* Declarative side: the registries "populated with exactly the listed     *)
(*   registrations" (L_uadp, L_aadp, L_asub, L_usub), the query functions  *)
(*   (LookupU, LookupA, SubsBag) applied to them, the per-call contract on *)
(*   listings / events / return value (ListingsExact, EventsExact,         *)
(*   ReturnValueExact: action properties).                                 *)
(* Property C16: RegistriesMatch, QueriesMatchListings, RebuildFindsNothing*)
(*   CounterExact (invariants); ListingsExact, EventsExact,                *)
(*   ReturnValueExact (action properties over every call).                 *)
(*                                                                         *)
(* Reading of "one event per registration" (DESIGN.md, C16 notes): the     *)
(* contract is stated per CALL.  registerAdapter always emits one          *)
(* Registered (also when it replaces or repeats a registration in place;   *)
(* no Unregistered for the replaced one); unregisterSubscriptionAdapter /  *)
(* unregisterHandler emit ONE Unregistered for the whole group they        *)
(* remove (carrying the factory argument as passed, possibly None, and     *)
(* info '').  Only the utility replacement is a two-event sequence.        *)
(***************************************************************************)
EXTENDS Integers, Sequences, FiniteSets, TLC

CONSTANTS Defect,    \* "none" (shipped) | "counter_by_identity" (the
                     \* unhashable counter matches by identity) |
                     \* "unsub_ignores_provided" (unregisterSubscription-
                     \* Adapter(factory, ...) forgets `provided` in its
                     \* listing filter): seeded defects for the self-test
          Ops,       \* enabled methods (set of op names)
          UKeys,     \* set of <<provided, name>> for utility calls
          UComps,    \* components usable in utility calls
          UInfos,    \* info strings for registerUtility
          UFacs,     \* {0} or {0,1}: 1 = via factory=FU (FU() is C2)
          EvFlags,   \* {TRUE} or {TRUE, FALSE}: the event= argument
          AKeys,     \* set of <<required, provided, name>>
          AFacts, AInfos,
          SKeys,     \* set of <<required, provided>>
          SFacts, SInfos,
          HKeys,     \* set of required
          HFacts, HInfos,
          MaxLive,   \* bound on the total number of listed registrations
          MaxEpoch   \* re-initialisations distinguished in the state (0:
                     \* the state after __init__ IS the initial state)

VARIABLES ureg,   \* set of [p, n, c, i, f]   _utility_registrations
          areg,   \* set of [r, p, n, f, i]   _adapter_registrations
          sreg,   \* Seq of [r, p, f, i]      _subscription_registrations
          hreg,   \* Seq of [r, f, i]         _handler_registrations
          uadp,   \* set of [p, n, c]         utilities._adapters[0]
          usub,   \* [Provs -> Seq(Comps)]    utilities._subscribers[0]
          ucnt,   \* [Provs -> [Comps -> Int]] counter cache; the key is the
                  \* object first stored; 0 = no entry
          urep,   \* [Provs -> {"dict","list"}] representation of the counter
          aadp,   \* set of [r, p, n, f]      adapters._adapters[1]
          asub,   \* [Reqs -> [0..2 -> Seq(Facts)]] adapters._subscribers[1]
                  \* (provided 0 = None: handlers)
          events, \* Seq of event records notified by the last call
          ret,    \* return value of the last call: -1 None, 0 False, 1 True
          call,   \* the last call (hidden from the VIEW together with
                  \* events and ret)
          epoch   \* number of re-initialisations so far, capped by MaxEpoch:
                  \* makes the replay reach states THROUGH a re-initialised
                  \* object (a stale _v_utility_registrations_cache would
                  \* only show in calls made after __init__)

listing == <<ureg, areg, sreg, hreg>>
ustate == <<ureg, uadp, usub, ucnt, urep>>
astate == <<areg, sreg, hreg, aadp, asub>>
content == <<ureg, areg, sreg, hreg, uadp, usub, ucnt, urep, aadp, asub>>
vars == <<content, events, ret, call, epoch>>

(***************************************************************************)
(* Universe (fixed; the MC module chooses which parts the calls range over)*)
(***************************************************************************)
C1A == 1    \* hashable,   C1A = C1B (equal, distinct objects)
C1B == 2
U1A == 3    \* unhashable, U1A = U1B
U1B == 4
C2 == 5     \* hashable, equal to nothing else; FU() returns it
Comps == 1..5
EqRep(c) == IF c = 2 THEN 1 ELSE IF c = 4 THEN 3 ELSE c
EqClass(c) == {k \in Comps : EqRep(k) = EqRep(c)}
Hashable(c) == c \in {1, 2, 5}

PA == 1
PB == 2     \* PB extends PA
Provs == {1, 2}
\* provided interfaces consulted when p is asked for, in _lookup's order
\* (_v_lookup._extendors[p]); 0 = None (handlers)
Ext(p) == IF p = 1 THEN <<1, 2>> ELSE IF p = 2 THEN <<2>> ELSE <<0>>

Reqs == {1, 2}      \* R1, R2(R1); object o_r provides exactly R_r
Ro(r) == IF r = 2 THEN <<2, 1>> ELSE <<1>>

Facts == 1..3       \* F1A = F1B (equal, distinct), F2
FEqRep(f) == IF f = 2 THEN 1 ELSE f
Names == {"", "n", "m"}
RNone == -1

The(S) == CHOOSE x \in S : TRUE
UAt(S, p, n) == {o \in S : o.p = p /\ o.n = n}
AAt(S, r, p, n) == {o \in S : o.r = r /\ o.p = p /\ o.n = n}
Count(s, x) == Cardinality({j \in DOMAIN s : s[j] = x})
Live == Cardinality(ureg) + Cardinality(areg) + Len(sreg) + Len(hreg)

RECURSIVE ConcatAll(_)
ConcatAll(ss) == IF ss = <<>> THEN <<>> ELSE Head(ss) \o ConcatAll(Tail(ss))

Call(op, c, f, r, p, n, i, ev, fac) ==
    [op |-> op, c |-> c, f |-> f, r |-> r, p |-> p, n |-> n, i |-> i,
     ev |-> ev, fac |-> fac]

\* k: "R" Registered / "U" Unregistered; t: "u" UtilityRegistration,
\* "a" AdapterRegistration, "s" SubscriptionRegistration, "h" Handler...;
\* o: admissible identities of .component (t = "u") or .factory (others),
\* 0 = None; f: .factory of a utility registration (0 None, 1 FU)
Event(k, t, r, p, n, o, i, f) ==
    [k |-> k, t |-> t, r |-> r, p |-> p, n |-> n, o |-> o, i |-> i, f |-> f]

(***************************************************************************)
(* Mechanism: _UtilityRegistrations (registry.py:82-150) as functions on   *)
(* the utilities-side state record                                         *)
(***************************************************************************)
UState == [ureg |-> ureg, uadp |-> uadp, usub |-> usub, ucnt |-> ucnt,
           urep |-> urep]

\* dict: hash + ==; _UnhashableComponentCounter: == (seeded defect: is)
Match(rep, k, c) == IF rep = "list" /\ Defect = "counter_by_identity"
                    THEN k = c ELSE EqRep(k) = EqRep(c)
CntKeys(st, p, c) == {k \in Comps : st.ucnt[p][k] # 0 /\
                                    Match(st.urep[p], k, c)}
CntGet(st, p, c) == IF CntKeys(st, p, c) = {} THEN 0
                    ELSE st.ucnt[p][The(CntKeys(st, p, c))]
CntSet(st, p, c, v) ==
    LET K == CntKeys(st, p, c)
        kk == IF K = {} THEN c ELSE The(K)
    IN [st EXCEPT !.ucnt[p][kk] = v]

\* _is_utility_subscribed: TypeError (unhashable, still a dict) -> False
IsSubscribed(st, p, c) ==
    IF st.urep[p] = "dict" /\ ~Hashable(c) THEN FALSE
    ELSE CntGet(st, p, c) > 0

\* __cache_utility: TypeError -> switch this provided's counter to the list
CacheUtility(st, p, c) ==
    LET s1 == IF st.urep[p] = "dict" /\ ~Hashable(c)
              THEN [st EXCEPT !.urep[p] = "list"] ELSE st
    IN CntSet(s1, p, c, CntGet(s1, p, c) + 1)

UR_Register(st, p, n, c, i, f) ==
    LET subscribed == IsSubscribed(st, p, c)
        s1 == [st EXCEPT !.ureg = (@ \ UAt(@, p, n)) \cup
                   {[p |-> p, n |-> n, c |-> c, i |-> i, f |-> f]}]
        \* utilities.register((), provided, name, component)
        s2 == [s1 EXCEPT !.uadp = (@ \ UAt(@, p, n)) \cup
                   {[p |-> p, n |-> n, c |-> c]}]
        \* if not subscribed: utilities.subscribe((), provided, component)
        s3 == IF subscribed THEN s2
              ELSE [s2 EXCEPT !.usub[p] = Append(@, c)]
    IN CacheUtility(s3, p, c)

UR_Unregister(st, p, n, c) ==
    LET s1 == [st EXCEPT !.ureg = @ \ UAt(@, p, n)]
        \* utilities.unregister((), provided, name)
        s2 == [s1 EXCEPT !.uadp = @ \ UAt(@, p, n)]
        \* __uncache_utility
        count == CntGet(s2, p, c) - 1
        s3 == CntSet(s2, p, c, count)      \* count = 0 deletes the entry
    IN IF count > 0 THEN s3
       \* utilities.unsubscribe: _removeValueFromLeaf drops every v == c
       ELSE [s3 EXCEPT !.usub[p] =
                 SelectSeq(@, LAMBDA v : EqRep(v) # EqRep(c))]

SetU(st) == /\ ureg' = st.ureg /\ uadp' = st.uadp /\ usub' = st.usub
            /\ ucnt' = st.ucnt /\ urep' = st.urep

UEventOf(k, o, adm) == Event(k, "u", 0, o.p, o.n, adm, o.i, o.f)

(***************************************************************************)
(* Mechanism: the public methods                                           *)
(***************************************************************************)
\* registerUtility(component | factory=FU, provided, name, info, event)
RegisterUtility(c, p, n, i, ev, fac) ==
    LET old == UAt(ureg, p, n)
        o == The(old)
        \* reg[:2] == (component, info): tuple comparison, element-wise ==
        already == old # {} /\ EqRep(o.c) = EqRep(c) /\ o.i = i
        \* self.unregisterUtility(reg[0], provided, name)
        s1 == IF old # {} THEN UR_Unregister(UState, p, n, o.c) ELSE UState
        e1 == IF old # {} THEN <<UEventOf("U", o, {o.c})>> ELSE <<>>
        s2 == UR_Register(s1, p, n, c, i, fac)
        new == [p |-> p, n |-> n, c |-> c, i |-> i, f |-> fac]
        e2 == IF ev THEN <<UEventOf("R", new, {c})>> ELSE <<>>
    IN /\ UNCHANGED epoch
       /\ call' = Call("registerUtility", c, 0, 0, p, n, i, ev, fac)
       /\ ret' = RNone
       /\ UNCHANGED astate
       /\ IF already THEN events' = <<>> /\ UNCHANGED ustate
          ELSE events' = e1 \o e2 /\ SetU(s2)

\* unregisterUtility(component=None | c | factory=FU, provided, name)
UnregisterUtility(c, p, n, fac) ==
    LET old == UAt(ureg, p, n)
        o == The(old)
        miss == old = {} \/ (c # 0 /\ EqRep(c) # EqRep(o.c))
        comp == IF c = 0 THEN o.c ELSE c
        adm == IF c = 0 THEN {o.c} ELSE EqClass(o.c)
    IN /\ UNCHANGED epoch
       /\ call' = Call("unregisterUtility", c, 0, 0, p, n, "", TRUE, fac)
       /\ UNCHANGED astate
       /\ IF miss THEN ret' = 0 /\ events' = <<>> /\ UNCHANGED ustate
          ELSE /\ SetU(UR_Unregister(UState, p, n, comp))
               /\ events' = <<UEventOf("U", o, adm)>>
               /\ ret' = 1

RegisterAdapter(f, r, p, n, i, ev) ==
    /\ UNCHANGED epoch
    /\ call' = Call("registerAdapter", 0, f, r, p, n, i, ev, 0)
    /\ areg' = (areg \ AAt(areg, r, p, n)) \cup
               {[r |-> r, p |-> p, n |-> n, f |-> f, i |-> i]}
    \* adapters.register(required, provided, name, factory)
    /\ aadp' = (aadp \ AAt(aadp, r, p, n)) \cup
               {[r |-> r, p |-> p, n |-> n, f |-> f]}
    /\ events' = IF ev THEN <<Event("R", "a", r, p, n, {f}, i, 0)>> ELSE <<>>
    /\ ret' = RNone
    /\ UNCHANGED <<ustate, sreg, hreg, asub>>

\* unregisterAdapter(factory=None | f, required, provided, name)
UnregisterAdapter(f, r, p, n) ==
    LET old == AAt(areg, r, p, n)
        o == The(old)
        miss == old = {} \/ (f # 0 /\ FEqRep(f) # FEqRep(o.f))
    IN /\ UNCHANGED epoch
       /\ call' = Call("unregisterAdapter", 0, f, r, p, n, "", TRUE, 0)
       /\ UNCHANGED <<ustate, sreg, hreg, asub>>
       /\ IF miss THEN ret' = 0 /\ events' = <<>> /\ UNCHANGED <<areg, aadp>>
          ELSE /\ areg' = areg \ old
               /\ aadp' = aadp \ AAt(aadp, r, p, n)
               /\ events' = <<Event("U", "a", r, p, n, {o.f}, o.i, 0)>>
               /\ ret' = 1

RegisterSubscriptionAdapter(f, r, p, i, ev) ==
    /\ UNCHANGED epoch
    /\ call' = Call("registerSubscriptionAdapter", 0, f, r, p, "", i, ev, 0)
    /\ sreg' = Append(sreg, [r |-> r, p |-> p, f |-> f, i |-> i])
    /\ asub' = [asub EXCEPT ![r][p] = Append(@, f)]
    /\ events' = IF ev THEN <<Event("R", "s", r, p, "", {f}, i, 0)>> ELSE <<>>
    /\ ret' = RNone
    /\ UNCHANGED <<ustate, areg, hreg, aadp>>

\* unregisterSubscriptionAdapter(factory=None | f, required, provided)
UnregisterSubscriptionAdapter(f, r, p) ==
    LET Drop(e) ==
          IF f = 0 THEN e.r = r /\ e.p = p
          ELSE IF Defect = "unsub_ignores_provided"
               THEN e.r = r /\ FEqRep(e.f) = FEqRep(f)
               ELSE e.r = r /\ e.p = p /\ FEqRep(e.f) = FEqRep(f)
        new == SelectSeq(sreg, LAMBDA e : ~Drop(e))
    IN /\ UNCHANGED epoch
       /\ call' = Call("unregisterSubscriptionAdapter", 0, f, r, p, "", "",
                       TRUE, 0)
       /\ UNCHANGED <<ustate, areg, hreg, aadp>>
       /\ IF Len(new) = Len(sreg)
          THEN ret' = 0 /\ events' = <<>> /\ UNCHANGED <<sreg, asub>>
          ELSE /\ sreg' = new
               \* adapters.unsubscribe(required, provided, factory)
               /\ asub' = [asub EXCEPT ![r][p] =
                     IF f = 0 THEN <<>>
                     ELSE SelectSeq(@, LAMBDA v : FEqRep(v) # FEqRep(f))]
               /\ events' = <<Event("U", "s", r, p, "", {f}, "", 0)>>
               /\ ret' = 1

RegisterHandler(f, r, i, ev) ==
    /\ UNCHANGED epoch
    /\ call' = Call("registerHandler", 0, f, r, 0, "", i, ev, 0)
    /\ hreg' = Append(hreg, [r |-> r, f |-> f, i |-> i])
    /\ asub' = [asub EXCEPT ![r][0] = Append(@, f)]
    /\ events' = IF ev THEN <<Event("R", "h", r, 0, "", {f}, i, 0)>> ELSE <<>>
    /\ ret' = RNone
    /\ UNCHANGED <<ustate, areg, sreg, aadp>>

UnregisterHandler(f, r) ==
    LET Drop(e) == IF f = 0 THEN e.r = r
                   ELSE e.r = r /\ FEqRep(e.f) = FEqRep(f)
        new == SelectSeq(hreg, LAMBDA e : ~Drop(e))
    IN /\ UNCHANGED epoch
       /\ call' = Call("unregisterHandler", 0, f, r, 0, "", "", TRUE, 0)
       /\ UNCHANGED <<ustate, areg, sreg, aadp>>
       /\ IF Len(new) = Len(hreg)
          THEN ret' = 0 /\ events' = <<>> /\ UNCHANGED <<hreg, asub>>
          ELSE /\ hreg' = new
               /\ asub' = [asub EXCEPT ![r][0] =
                     IF f = 0 THEN <<>>
                     ELSE SelectSeq(@, LAMBDA v : FEqRep(v) # FEqRep(f))]
               /\ events' = <<Event("U", "h", r, 0, "", {f}, "", 0)>>
               /\ ret' = 1

EmptyContent ==
    /\ ureg = {} /\ areg = {} /\ sreg = <<>> /\ hreg = <<>>
    /\ uadp = {} /\ aadp = {}
    /\ usub = [p \in Provs |-> <<>>]
    /\ ucnt = [p \in Provs |-> [c \in Comps |-> 0]]
    /\ urep = [p \in Provs |-> "dict"]
    /\ asub = [r \in Reqs |-> [p \in 0..2 |-> <<>>]]

\* Components.__init__ called again: fresh registries, empty listings,
\* _v_utility_registrations_cache = None (rebuilt from the empty listing)
Reinit ==
    /\ Live > 0
    /\ call' = Call("reinit", 0, 0, 0, 0, "", "", TRUE, 0)
    /\ epoch' = IF epoch < MaxEpoch THEN epoch + 1 ELSE epoch
    /\ ureg' = {} /\ areg' = {} /\ sreg' = <<>> /\ hreg' = <<>>
    /\ uadp' = {} /\ aadp' = {}
    /\ usub' = [p \in Provs |-> <<>>]
    /\ ucnt' = [p \in Provs |-> [c \in Comps |-> 0]]
    /\ urep' = [p \in Provs |-> "dict"]
    /\ asub' = [r \in Reqs |-> [p \in 0..2 |-> <<>>]]
    /\ events' = <<>> /\ ret' = RNone

\* The per-(provided, component) counter is a VOLATILE cache
\* (_v_utility_registrations_cache): it is lost whenever the object is
\* unpickled or ghosted and rebuilt from the utility listing at the next use.
\* Losing it changes nothing observable.
DropCache ==
    /\ Live > 0
    /\ call' = Call("dropcache", 0, 0, 0, 0, "", "", TRUE, 0)
    /\ events' = <<>> /\ ret' = RNone
    /\ UNCHANGED <<ureg, areg, sreg, hreg, uadp, aadp, usub, ucnt, urep,
                   asub, epoch>>

Init == /\ EmptyContent
        /\ events = <<>> /\ ret = RNone /\ epoch = 0
        /\ call = Call("init", 0, 0, 0, 0, "", "", TRUE, 0)

Room == Live < MaxLive

Next ==
    \/ \E k \in UKeys, c \in UComps, i \in UInfos, ev \in EvFlags,
          fac \in UFacs :
          /\ "registerUtility" \in Ops
          /\ fac = 1 => c = C2
          /\ Room \/ UAt(ureg, k[1], k[2]) # {}
          /\ RegisterUtility(c, k[1], k[2], i, ev, fac)
    \/ \E k \in UKeys, c \in UComps \cup {0}, fac \in UFacs :
          /\ "unregisterUtility" \in Ops
          /\ fac = 1 => c = C2
          /\ UnregisterUtility(c, k[1], k[2], fac)
    \/ \E k \in AKeys, f \in AFacts, i \in AInfos, ev \in EvFlags :
          /\ "registerAdapter" \in Ops
          /\ Room \/ AAt(areg, k[1], k[2], k[3]) # {}
          /\ RegisterAdapter(f, k[1], k[2], k[3], i, ev)
    \/ \E k \in AKeys, f \in AFacts \cup {0} :
          /\ "unregisterAdapter" \in Ops
          /\ UnregisterAdapter(f, k[1], k[2], k[3])
    \/ \E k \in SKeys, f \in SFacts, i \in SInfos, ev \in EvFlags :
          /\ "registerSubscriptionAdapter" \in Ops
          /\ Room
          /\ RegisterSubscriptionAdapter(f, k[1], k[2], i, ev)
    \/ \E k \in SKeys, f \in SFacts \cup {0} :
          /\ "unregisterSubscriptionAdapter" \in Ops
          /\ UnregisterSubscriptionAdapter(f, k[1], k[2])
    \/ \E r \in HKeys, f \in HFacts, i \in HInfos, ev \in EvFlags :
          /\ "registerHandler" \in Ops
          /\ Room
          /\ RegisterHandler(f, r, i, ev)
    \/ \E r \in HKeys, f \in HFacts \cup {0} :
          /\ "unregisterHandler" \in Ops
          /\ UnregisterHandler(f, r)
    \/ /\ "reinit" \in Ops
       /\ Reinit
    \/ /\ "dropcache" \in Ops
       /\ DropCache

(***************************************************************************)
(* Declarative side: the queries, as functions of registry contents        *)
(***************************************************************************)
\* utilities.lookup((), p, n): first extendor of p holding the name
LookupU(adp, p, n) ==
    LET hits == SelectSeq(Ext(p), LAMBDA q : UAt(adp, q, n) # {})
    IN IF hits = <<>> THEN 0 ELSE The(UAt(adp, hits[1], n)).c

\* adapters.lookup((R_r,), p, n): required-major along the object's
\* resolution order, then along the extendors of p
LookupAP(adp, r1, p, n) ==
    LET hits == SelectSeq(Ext(p), LAMBDA q : AAt(adp, r1, q, n) # {})
    IN IF hits = <<>> THEN 0 ELSE The(AAt(adp, r1, hits[1], n)).f
LookupA(adp, r, p, n) ==
    LET hits == SelectSeq(Ro(r), LAMBDA r1 : LookupAP(adp, r1, p, n) # 0)
    IN IF hits = <<>> THEN 0 ELSE LookupAP(adp, hits[1], p, n)

\* every subscription reachable from (R_r, p), as one sequence (its order
\* is C07's business; only the multiset is used here)
SubsSeqA(sub, r, p) ==
    LET ro == Ro(r)
        ex == Ext(p)
        m == Len(ex)
    IN ConcatAll([k \in 1..(Len(ro) * m) |->
                    sub[ro[((k - 1) \div m) + 1]][ex[((k - 1) % m) + 1]]])
SubsBagA(sub, r, p) == [f \in Facts |-> Count(SubsSeqA(sub, r, p), f)]

SubsSeqU(sub, p) == ConcatAll([k \in DOMAIN Ext(p) |-> sub[Ext(p)[k]]])
\* as a multiset of equality classes (indexed by the class representative)
SubsBagU(sub, p) ==
    [k \in Comps |-> Cardinality({j \in DOMAIN SubsSeqU(sub, p) :
                                    k = EqRep(SubsSeqU(sub, p)[j])})]

(***************************************************************************)
(* Registries populated with exactly the listed registrations              *)
(***************************************************************************)
L_uadp == {[p |-> o.p, n |-> o.n, c |-> o.c] : o \in ureg}
L_aadp == {[r |-> o.r, p |-> o.p, n |-> o.n, f |-> o.f] : o \in areg}
FOf(s) == [j \in DOMAIN s |-> s[j].f]
L_asub == [r \in Reqs |-> [p \in 0..2 |->
             IF p = 0 THEN FOf(SelectSeq(hreg, LAMBDA e : e.r = r))
             ELSE FOf(SelectSeq(sreg, LAMBDA e : e.r = r /\ e.p = p))]]
\* one subscription per (provided, equality class) with a live registration
\* -- which member of the class is subscribed is not part of the contract
L_usubBag1(p) == [k \in Comps |->
                    IF \E o \in ureg : o.p = p /\ EqRep(o.c) = k
                    THEN 1 ELSE 0]
L_usubBag(p) ==
    [k \in Comps |->
        Cardinality({j \in DOMAIN Ext(p) : L_usubBag1(Ext(p)[j])[k] = 1})]

KeysUnique ==
    /\ \A a, b \in ureg : (a.p = b.p /\ a.n = b.n) => a = b
    /\ \A a, b \in areg : (a.r = b.r /\ a.p = b.p /\ a.n = b.n) => a = b

RegistriesMatch ==
    /\ KeysUnique
    /\ uadp = L_uadp
    /\ aadp = L_aadp
    /\ asub = L_asub
    /\ \A p \in Provs : SubsBagU(usub, p) = L_usubBag(p)

QueriesMatchListings ==
    /\ \A p \in Provs, n \in Names :
          LookupU(uadp, p, n) = LookupU(L_uadp, p, n)
    /\ \A p \in Provs : SubsBagU(usub, p) = L_usubBag(p)
    /\ \A r \in Reqs, p \in Provs, n \in Names :
          LookupA(aadp, r, p, n) = LookupA(L_aadp, r, p, n)
    /\ \A r \in Reqs, p \in 0..2 :
          SubsBagA(asub, r, p) = SubsBagA(L_asub, r, p)

\* rebuildUtilityRegistryFromLocalCache(rebuild=False), registry.py:561-572
NeededRegistered ==
    Cardinality({o \in ureg :
        LET a == UAt(uadp, o.p, o.n)
        IN a = {} \/ EqRep(The(a).c) # EqRep(o.c)})
NeededSubscribed ==
    Cardinality({o \in ureg :
        ~\E j \in DOMAIN usub[o.p] : EqRep(usub[o.p][j]) = EqRep(o.c)})
RebuildFindsNothing == NeededRegistered = 0 /\ NeededSubscribed = 0

\* the counter of every (provided, equality class) equals the number of
\* listed registrations of that class
CounterExact ==
    \A p \in Provs, k \in Comps :
        /\ ucnt[p][k] >= 0
        /\ (k = EqRep(k)) =>
              ucnt[p][k] + (IF k = 1 THEN ucnt[p][2] ELSE
                            IF k = 3 THEN ucnt[p][4] ELSE 0)
              = Cardinality({o \in ureg : o.p = p /\ EqRep(o.c) = k})

TypeOK ==
    /\ \A o \in ureg : o.p \in Provs /\ o.n \in Names /\ o.c \in Comps
    /\ \A o \in areg : o.r \in Reqs /\ o.p \in Provs /\ o.f \in Facts
    /\ \A j \in DOMAIN sreg : sreg[j].r \in Reqs /\ sreg[j].p \in Provs
    /\ \A j \in DOMAIN hreg : hreg[j].r \in Reqs
    /\ ret \in {-1, 0, 1}
    /\ \A p \in Provs : urep[p] \in {"dict", "list"}

(***************************************************************************)
(* Per-call contract (action properties; `call'` is the call performed by  *)
(* the step)                                                               *)
(***************************************************************************)
UnregOps == {"unregisterUtility", "unregisterAdapter",
             "unregisterSubscriptionAdapter", "unregisterHandler"}

\* what the listings must be after the call, in terms of the call alone
ListingsStep ==
    LET a == call'
    IN CASE a.op = "registerUtility" ->
              LET same == \E o \in ureg : /\ o.p = a.p /\ o.n = a.n
                                          /\ EqRep(o.c) = EqRep(a.c)
                                          /\ o.i = a.i
              IN /\ ureg' = IF same THEN ureg
                            ELSE {o \in ureg : ~(o.p = a.p /\ o.n = a.n)}
                                 \cup {[p |-> a.p, n |-> a.n, c |-> a.c,
                                        i |-> a.i, f |-> a.fac]}
                 /\ UNCHANGED <<areg, sreg, hreg>>
         [] a.op = "unregisterUtility" ->
              /\ ureg' = {o \in ureg :
                            ~(/\ o.p = a.p /\ o.n = a.n
                              /\ (a.c = 0 \/ EqRep(o.c) = EqRep(a.c)))}
              /\ UNCHANGED <<areg, sreg, hreg>>
         [] a.op = "registerAdapter" ->
              /\ areg' = {o \in areg :
                            ~(o.r = a.r /\ o.p = a.p /\ o.n = a.n)}
                         \cup {[r |-> a.r, p |-> a.p, n |-> a.n, f |-> a.f,
                                i |-> a.i]}
              /\ UNCHANGED <<ureg, sreg, hreg>>
         [] a.op = "unregisterAdapter" ->
              /\ areg' = {o \in areg :
                            ~(/\ o.r = a.r /\ o.p = a.p /\ o.n = a.n
                              /\ (a.f = 0 \/ FEqRep(o.f) = FEqRep(a.f)))}
              /\ UNCHANGED <<ureg, sreg, hreg>>
         [] a.op = "registerSubscriptionAdapter" ->
              /\ sreg' = sreg \o <<[r |-> a.r, p |-> a.p, f |-> a.f,
                                    i |-> a.i]>>
              /\ UNCHANGED <<ureg, areg, hreg>>
         [] a.op = "unregisterSubscriptionAdapter" ->
              /\ sreg' = SelectSeq(sreg, LAMBDA e :
                            ~(/\ e.r = a.r /\ e.p = a.p
                              /\ (a.f = 0 \/ FEqRep(e.f) = FEqRep(a.f))))
              /\ UNCHANGED <<ureg, areg, hreg>>
         [] a.op = "registerHandler" ->
              /\ hreg' = hreg \o <<[r |-> a.r, f |-> a.f, i |-> a.i]>>
              /\ UNCHANGED <<ureg, areg, sreg>>
         [] a.op = "unregisterHandler" ->
              /\ hreg' = SelectSeq(hreg, LAMBDA e :
                            ~(/\ e.r = a.r
                              /\ (a.f = 0 \/ FEqRep(e.f) = FEqRep(a.f))))
              /\ UNCHANGED <<ureg, areg, sreg>>
         [] a.op = "reinit" ->
              ureg' = {} /\ areg' = {} /\ sreg' = <<>> /\ hreg' = <<>>
         [] a.op = "dropcache" -> UNCHANGED <<ureg, areg, sreg, hreg>>
         [] OTHER -> FALSE

DescribesU(e, o) == /\ e.t = "u" /\ e.r = 0 /\ e.p = o.p /\ e.n = o.n
                    /\ o.c \in e.o /\ e.o \subseteq EqClass(o.c)
                    /\ e.i = o.i /\ e.f = o.f
DescribesA(e, o) == /\ e.t = "a" /\ e.r = o.r /\ e.p = o.p /\ e.n = o.n
                    /\ e.o = {o.f} /\ e.i = o.i /\ e.f = 0
Kinds(es) == [j \in DOMAIN es |-> es[j].k]

\* events of the call, in terms of what the call added to / removed from
\* the listings
EventsStep ==
    LET a == call'
        remU == ureg \ ureg'
        addU == ureg' \ ureg
        remA == areg \ areg'
        es == events'
    IN CASE a.op = "registerUtility" ->
              \* replaced: Unregistered(old) then Registered(new); repeated:
              \* nothing; event=False suppresses only the Registered
              /\ Cardinality(remU) <= 1 /\ Cardinality(addU) <= 1
              /\ remU # {} => addU # {}
              /\ Kinds(es) = (IF remU # {} THEN <<"U">> ELSE <<>>) \o
                             (IF addU # {} /\ a.ev THEN <<"R">> ELSE <<>>)
              /\ \A j \in DOMAIN es :
                    DescribesU(es[j], IF es[j].k = "U" THEN The(remU)
                                      ELSE The(addU))
         [] a.op = "unregisterUtility" ->
              /\ Cardinality(remU) <= 1 /\ addU = {}
              /\ Kinds(es) = IF remU # {} THEN <<"U">> ELSE <<>>
              /\ \A j \in DOMAIN es : DescribesU(es[j], The(remU))
         [] a.op = "registerAdapter" ->
              \* per-call reading: always one Registered for the (new or
              \* repeated) registration, none for a replaced one
              /\ Kinds(es) = IF a.ev THEN <<"R">> ELSE <<>>
              /\ \A j \in DOMAIN es :
                    DescribesA(es[j], The(AAt(areg', a.r, a.p, a.n)))
         [] a.op = "unregisterAdapter" ->
              /\ Cardinality(remA) <= 1
              /\ Kinds(es) = IF remA # {} THEN <<"U">> ELSE <<>>
              /\ \A j \in DOMAIN es : DescribesA(es[j], The(remA))
         [] a.op = "registerSubscriptionAdapter" ->
              /\ Kinds(es) = IF a.ev THEN <<"R">> ELSE <<>>
              /\ \A j \in DOMAIN es :
                    es[j] = Event("R", "s", a.r, a.p, "", {a.f}, a.i, 0)
         [] a.op = "unregisterSubscriptionAdapter" ->
              \* one Unregistered for the group, iff the group was not empty
              /\ Kinds(es) = IF Len(sreg') < Len(sreg) THEN <<"U">> ELSE <<>>
              /\ \A j \in DOMAIN es :
                    es[j] = Event("U", "s", a.r, a.p, "", {a.f}, "", 0)
         [] a.op = "registerHandler" ->
              /\ Kinds(es) = IF a.ev THEN <<"R">> ELSE <<>>
              /\ \A j \in DOMAIN es :
                    es[j] = Event("R", "h", a.r, 0, "", {a.f}, a.i, 0)
         [] a.op = "unregisterHandler" ->
              /\ Kinds(es) = IF Len(hreg') < Len(hreg) THEN <<"U">> ELSE <<>>
              /\ \A j \in DOMAIN es :
                    es[j] = Event("U", "h", a.r, 0, "", {a.f}, "", 0)
         [] a.op = "reinit" -> es = <<>>
         [] a.op = "dropcache" -> es = <<>>
         [] OTHER -> FALSE

ReturnStep ==
    IF call'.op \in UnregOps
    THEN /\ ret' = IF listing' # listing THEN 1 ELSE 0
         /\ (ret' = 1) <=> (events' # <<>>)
    ELSE ret' = RNone

ListingsExact == [][ListingsStep]_vars
EventsExact == [][EventsStep]_vars
ReturnValueExact == [][ReturnStep]_vars

(***************************************************************************)
(* Expected observables of a state: computed from the LISTINGS only        *)
(***************************************************************************)
Expect ==
    [ureg |-> ureg, areg |-> areg, sreg |-> sreg, hreg |-> hreg,
     qU |-> [p \in Provs |-> [n \in Names |-> LookupU(L_uadp, p, n)]],
     \* subU[p][k] = how many members of the class of k are returned
     subU |-> [p \in Provs |-> L_usubBag(p)],
     qA |-> [r \in Reqs |-> [p \in Provs |-> [n \in Names |->
                LookupA(L_aadp, r, p, n)]]],
     subA |-> [r \in Reqs |-> [p \in Provs |-> SubsBagA(L_asub, r, p)]],
     hnd |-> [r \in Reqs |-> SubsBagA(L_asub, r, 0)],
     rebuild |-> [needed_registered |-> 0, needed_subscribed |-> 0,
                  did_not_register |-> Cardinality(ureg),
                  did_not_subscribe |-> Cardinality(ureg)],
     eqrep |-> [c \in Comps |-> EqRep(c)]]
=============================================================================
