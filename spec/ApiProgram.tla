----------------------------- MODULE ApiProgram -----------------------------
(***************************************************************************)
(* C10: programs over the public API of zope.interface.                    *)
(*                                                                         *)
(* The claim "the C accelerator is observationally equivalent to the       *)
(* Python reference" is a refinement claim: both implementations refine    *)
(* the SAME specifications.  For everything the domain modules pin down    *)
(* (SpecGraph, Declarations, Registry, Adapt, Ordering, ...) that is       *)
(* decided by replaying their behaviours into both implementations.  This  *)
(* module covers the rest: whole API programs - operation sequences with   *)
(* their arguments, including the odd inputs nobody wrote an expectation   *)
(* for - whose observable result (value, exception TYPE, later behaviour)  *)
(* the specification deliberately leaves unconstrained:                    *)
(*                                                                         *)
(*      Result(op) \in AnyValue          for every operation               *)
(*                                                                         *)
(* What the specification does fix is the program space (which calls, on   *)
(* which operands, in which order, from which abstract situations) and the *)
(* observation points (every call's canonical result).  A program is one   *)
(* behaviour; the conformance harness executes each behaviour under both   *)
(* implementations; the Python reference's trace stands in for the         *)
(* unconstrained choice and the C trace must be identical, step by step.   *)
(*                                                                         *)
(* The abstract state tracks just enough of the history to make programs   *)
(* reach the interesting situations on purpose rather than by luck: which  *)
(* registrations are live (so that removal, overwrite and cached-miss      *)
(* lookups happen), which lookups have been answered since the last        *)
(* mutation (warm caches), which objects carry a bogus __provides__, which *)
(* interfaces were renamed after being hashed.                             *)
(***************************************************************************)
EXTENDS Naturals, Sequences, FiniteSets, TLC

CONSTANTS MaxLen,     \* operations per program
          Families    \* enabled operation families

VARIABLES n,          \* operations emitted so far
          live,       \* live registrations  <<g, req, prov, name>>
          slive,      \* live subscriptions  <<g, req, prov>>
          warm,       \* lookups answered since the last mutation (cache warm)
          bogus,      \* objects whose __provides__ was overwritten
          renamed,    \* interfaces whose __name__/__module__ were reassigned
          hooks,      \* what is installed in adapter_hooks
          pick,       \* operation kind chosen for the next step ("" = none)
          act         \* the operation (observation variable)

vars == <<n, live, slive, warm, bogus, renamed, hooks, pick, act>>

(***************************************************************************)
(* The world every program runs in (built fresh per program)               *)
(*   interfaces  I1, I2(I1), I3, I4(I2, I3)                                *)
(*   classes     K1, K2(K1), K3                                            *)
(*   instances   o1:K1, o2:K2, o3:K3                                       *)
(*   registries  g1 AdapterRegistry, g2 AdapterRegistry(g1),               *)
(*               g3 VerifyingAdapterRegistry(g1)                           *)
(***************************************************************************)
Ifc == {"I1", "I2", "I3", "I4"}
Cls == {"K1", "K2", "K3"}
Obj == {"o1", "o2", "o3"}
Gs == {1, 2, 3}
\* operands that are not what the API expects
OddObj == {"x_none", "x_int", "x_builtin", "x_func", "x_super", "x_cls",
           "x_pbAttrErr", "x_pbValErr", "x_confVal", "x_confNone",
           "x_confRaise", "x_confInst", "x_slots", "x_provOther"}
AnyObj == Obj \cup OddObj
ImplSpec == {"impl:K1", "impl:K2", "impl:K3"}
ProvSpec == {"prov:o1", "prov:o2"}
Specs == Ifc \cup ImplSpec \cup ProvSpec \cup {"Interface", "empty"}
\* I2twin: a distinct interface object with I2's name and module (equal to
\* I2); I2dupmod: I2's name in another module; both names are built at run
\* time (not interned strings)
Comparable == Ifc \cup ImplSpec \cup {"Interface", "x_none", "x_int",
                                      "x_named", "x_nameonly", "x_str",
                                      "I2twin", "I2dupmod"}
CmpOps == {"lt", "le", "gt", "ge", "eq", "ne"}

IfSeqs == {<<i>> : i \in Ifc} \cup {<<"I1", "I3">>, <<"I2", "I1">>, <<>>}
ReqKeys == {<<>>, <<"I1">>, <<"I2">>, <<"None">>, <<"impl:K1">>,
            <<"I1", "I3">>, <<"I2", "None">>}
\* a lookup key that a registration under r applies to (more specific specs)
Narrow(r) == [i \in DOMAIN r |->
                 CASE r[i] = "I1" -> "I2"
                   [] r[i] = "I2" -> "I4"
                   [] r[i] = "None" -> "I4"
                   [] r[i] = "impl:K1" -> "impl:K2"
                   [] OTHER -> r[i]]
ProvR == {"I3", "I4"}            \* provided interfaces used with registries
Desc(g) == IF g = 1 THEN {1, 2, 3} ELSE {g}   \* registries that see g
LookReqs == {<<>>, <<"I1">>, <<"I2">>, <<"I4">>, <<"impl:K2">>, <<"prov:o2">>,
             <<"I2", "I3">>, <<"I4", "I4">>}
GoodNames == {"", "n"}
BadNames == {"bytes", "none", "zero", "obj"}     \* non-string names
Names == GoodNames \cup BadNames
Vals == {"v1", "v2", "v2eq", "vNoneFactory"}     \* v2 == v2eq, not identical
Defaults == {"nodefault", "D"}
\* nested_then_val: the first hook adapts the object to another interface
\* (re-entering the hook loop) and declines, the second answers
HookSets == {"none", "g1", "g3", "retNone_then_val", "raises",
             "nested_then_val"}

\* answered lookups are remembered across mutations (re-asking one after a
\* mutation, through any entry point, is how a missing invalidation shows);
\* the memory is bounded
Mutated == /\ warm' = IF Cardinality(warm) > 6 THEN {} ELSE warm
Same == UNCHANGED <<live, slive, warm, bogus, renamed, hooks>>
Emit(a) == /\ n < MaxLen
           /\ n' = n + 1
           /\ act' = a
\* A program step is two TLC steps: Pick chooses the KIND of the next
\* operation (so that random generation is uniform over kinds, not over the
\* very unequal numbers of argument combinations), then the operation itself
\* chooses its arguments.  Mutators carry extra weight labels.
On(f, K) == f \in Families /\ pick \in K /\ pick' = ""

(***************************************************************************)
(* Declarations                                                            *)
(***************************************************************************)
ClassDecl ==
    /\ On("decl", {"ClassDecl"})
    /\ \E f \in {"classImplements", "classImplementsOnly",
                 "classImplementsFirst"}, c \in Cls, i \in Ifc :
        /\ Emit([op |-> f, c |-> c, ifs |-> <<i>>])
        /\ Mutated
        /\ UNCHANGED <<live, slive, bogus, renamed, hooks>>

ObjDecl ==
    /\ On("decl", {"ObjDecl", "ObjDecl#2"})
    /\ \E f \in {"directlyProvides", "alsoProvides", "noLongerProvides"},
          t \in Obj \cup {"x_cls", "x_none", "x_int", "x_builtin", "x_slots"},
          is \in IfSeqs :
        /\ (f # "directlyProvides" => Len(is) = 1)
        /\ Emit([op |-> f, t |-> t, ifs |-> is])
        /\ Mutated
        /\ bogus' = bogus \ {t}
        /\ UNCHANGED <<live, slive, renamed, hooks>>

\* ob.__provides__ = None / 'str' / 42, or del ob.__provides__
SetProvides ==
    /\ On("odd", {"SetProvides"})
    /\ \E t \in Obj, k \in {"None", "str", "int", "del", "otherProvides"} :
        /\ Emit([op |-> "setProvides", t |-> t, kind |-> k])
        /\ Mutated
        /\ bogus' = IF k = "del" THEN bogus \ {t} ELSE bogus \cup {t}
        /\ UNCHANGED <<live, slive, renamed, hooks>>

(***************************************************************************)
(* Specification queries                                                   *)
(***************************************************************************)
DeclQuery ==
    /\ On("query", {"DeclQuery"})
    /\ \E f \in {"providedBy", "implementedBy", "directlyProvidedBy"},
          x \in AnyObj \cup Cls :
        /\ Emit([op |-> f, x |-> x])
        /\ Same

IfaceQuery ==
    /\ On("query", {"IfaceQuery"})
    /\ \E f \in {"I.providedBy", "I.implementedBy"}, i \in Ifc,
          x \in AnyObj \cup Cls :
        /\ Emit([op |-> f, i |-> i, x |-> x])
        /\ Same

SpecQuery ==
    /\ On("query", {"SpecQuery"})
    /\ \E f \in {"isOrExtends", "extends", "extendsNonStrict", "sro", "iro",
                 "specNames", "interfaces", "contains"},
          s \in Specs, t \in Specs \cup {"x_none", "x_int"} :
        /\ Emit([op |-> f, s |-> s, t |-> t])
        /\ Same

(***************************************************************************)
(* Adaptation (PEP 246 call)                                               *)
(***************************************************************************)
SetHooks ==
    /\ On("adapt", {"SetHooks"})
    /\ \E h \in HookSets :
        /\ h # hooks
        /\ Emit([op |-> "setHooks", h |-> h])
        /\ hooks' = h
        /\ UNCHANGED <<live, slive, warm, bogus, renamed>>

Adapt ==
    /\ On("adapt", {"Adapt", "Adapt#2"})
    /\ \E f \in {"call", "callAlt", "callAltNone", "adapt"}, i \in Ifc,
          x \in AnyObj :
        /\ Emit([op |-> f, i |-> i, x |-> x])
        /\ Same

(***************************************************************************)
(* Identity, ordering, hashing                                             *)
(***************************************************************************)
Compare ==
    /\ On("cmp", {"Compare", "Compare#2"})
    /\ \E a \in Comparable, b \in Comparable, o \in CmpOps :
        /\ Emit([op |-> "cmp", a |-> a, b |-> b, o |-> o])
        /\ Same

HashEq ==
    /\ On("cmp", {"HashEq"})
    /\ \E a \in Ifc \cup ImplSpec \cup {"I2twin", "I2dupmod"},
          b \in Ifc \cup ImplSpec \cup {"I2twin", "I2dupmod"} :
        /\ Emit([op |-> "hashEq", a |-> a, b |-> b])
        /\ Same

SortAll ==
    /\ On("cmp", {"SortAll"})
    /\ Emit([op |-> "sorted"])
    /\ Same

\* I_a.__name__, I_a.__module__ = those of I_b  (after I_a has been hashed)
Rename ==
    /\ On("cmp", {"Rename"})
    /\ \E a \in Ifc, b \in Ifc :
        /\ a # b /\ a \notin renamed /\ Cardinality(renamed) < 2
        /\ Emit([op |-> "rename", a |-> a, b |-> b])
        /\ renamed' = renamed \cup {a}
        /\ UNCHANGED <<live, slive, warm, bogus, hooks>>

(***************************************************************************)
(* Registry mutation                                                       *)
(***************************************************************************)
Register ==
    /\ On("reg", {"Register", "Register#2", "Register#3"})
    /\ \E g \in Gs, r \in ReqKeys, p \in ProvR, nm \in GoodNames,
          v \in Vals \cup {"None"} :
        /\ Emit([op |-> "register", g |-> g, req |-> r, prov |-> p,
                 name |-> nm, val |-> v])
        /\ live' = IF nm \in BadNames THEN live
                   ELSE IF v = "None" THEN live \ {<<g, r, p, nm>>}
                   ELSE live \cup {<<g, r, p, nm>>}
        /\ Mutated
        /\ UNCHANGED <<slive, bogus, renamed, hooks>>

\* removal aims at a live key (half of the disjunct), or anywhere
Unregister ==
    /\ On("reg", {"Unregister"})
    /\ \E k \in live \cup {<<g, r, p, nm>> : g \in {1}, r \in {<<"I1">>},
                                               p \in {"I3"}, nm \in GoodNames},
          v \in {"novalue"} \cup Vals :
        /\ Emit([op |-> "unregister", g |-> k[1], req |-> k[2],
                 prov |-> k[3], name |-> k[4], val |-> v])
        /\ live' = IF v = "novalue" THEN live \ {k} ELSE live
        /\ Mutated
        /\ UNCHANGED <<slive, bogus, renamed, hooks>>

Subscribe ==
    /\ On("reg", {"Subscribe", "Subscribe#2"})
    /\ \E g \in Gs, r \in ReqKeys, p \in ProvR \cup {"None"}, v \in Vals :
        /\ Emit([op |-> "subscribe", g |-> g, req |-> r, prov |-> p,
                 val |-> v])
        /\ slive' = slive \cup {<<g, r, p>>}
        /\ Mutated
        /\ UNCHANGED <<live, bogus, renamed, hooks>>

Unsubscribe ==
    /\ On("reg", {"Unsubscribe"})
    /\ \E k \in slive \cup {<<1, <<"I1">>, "I3">>}, v \in {"novalue"} \cup Vals :
        /\ Emit([op |-> "unsubscribe", g |-> k[1], req |-> k[2],
                 prov |-> k[3], val |-> v])
        /\ slive' = IF v = "novalue" THEN slive \ {k} ELSE slive
        /\ Mutated
        /\ UNCHANGED <<live, bogus, renamed, hooks>>

RegBases ==
    /\ On("reg", {"RegBases"})
    /\ \E g \in {2, 3}, b \in {<<>>, <<1>>} :
        /\ Emit([op |-> "setRegBases", g |-> g, nb |-> b])
        /\ Mutated
        /\ UNCHANGED <<live, slive, bogus, renamed, hooks>>

Rebuild ==
    /\ On("reg", {"Rebuild"})
    /\ \E g \in Gs :
        /\ Emit([op |-> "rebuild", g |-> g])
        /\ Mutated
        /\ UNCHANGED <<live, slive, bogus, renamed, hooks>>

SpecBases ==
    /\ On("reg", {"SpecBases"})
    /\ \E c \in {<<"I2", <<>> >>, <<"I2", <<"I1">> >>, <<"I4", <<"I3">> >>,
                 <<"I4", <<"I2", "I3">> >>} :
        /\ Emit([op |-> "setSpecBases", s |-> c[1], nb |-> c[2]])
        /\ Mutated
        /\ UNCHANGED <<live, slive, bogus, renamed, hooks>>

(***************************************************************************)
(* Registry queries: every entry point, good and bad names, with and       *)
(* without a default, on cold and warm caches                              *)
(***************************************************************************)
Lookup ==
    /\ On("look", {"Lookup", "Lookup#2"})
    /\ \E f \in {"lookup", "lookupList", "lookup1", "registered"},
          g \in Gs, r \in LookReqs, p \in ProvR, nm \in GoodNames,
          d \in Defaults :
        /\ (f = "lookup1" => Len(r) = 1)
        /\ Emit([op |-> f, g |-> g, req |-> r, prov |-> p, name |-> nm,
                 default |-> d])
        /\ warm' = warm \cup {<<g, r, p>>}
        /\ UNCHANGED <<live, slive, bogus, renamed, hooks>>

\* a lookup aimed at a live registration / subscription: from a registry that
\* sees it, for a key it applies to, through any entry point (first answer
\* after a mutation is computed, repeats are served from the caches)
LookupLive ==
    /\ On("look", {"LookupLive", "LookupLive#2", "LookupLive#3"})
    /\ \E k \in live,
          f \in {"lookup", "lookupList", "lookup1", "lookupAll", "names",
                 "queryAdapterOf", "adapterHookOf", "queryMultiOf"},
          d \in Defaults, narrow \in BOOLEAN, up \in BOOLEAN :
        /\ \E g \in Desc(k[1]) :
            LET r == IF narrow THEN Narrow(k[2]) ELSE k[2]
                p == IF up /\ k[3] = "I4" THEN "I3" ELSE k[3]
            IN /\ (f \in {"lookup1", "queryAdapterOf", "adapterHookOf"}
                       => Len(r) = 1)
               /\ "None" \notin {r[i] : i \in DOMAIN r}
               /\ Emit([op |-> f, g |-> g, req |-> r, prov |-> p,
                        name |-> k[4], default |-> d])
               /\ warm' = warm \cup {<<g, r, p>>}
        /\ UNCHANGED <<live, slive, bogus, renamed, hooks>>

SubsLive ==
    /\ On("look", {"SubsLive", "SubsLive#2"})
    /\ \E k \in slive, f \in {"subscriptions", "subscribersOf"},
          narrow \in BOOLEAN :
        /\ \E g \in Desc(k[1]) :
            LET r == IF narrow THEN Narrow(k[2]) ELSE k[2]
            IN /\ "None" \notin {r[i] : i \in DOMAIN r}
               /\ Emit([op |-> f, g |-> g, req |-> r, prov |-> k[3],
                        name |-> "", default |-> "D"])
               /\ warm' = IF k[3] = "None" THEN warm
                          ELSE warm \cup {<<g, r, k[3]>>}
        /\ UNCHANGED <<live, slive, bogus, renamed, hooks>>

\* repeat a lookup that was already answered since the last mutation, through
\* a (possibly different) entry point: the cached-answer paths
Relook ==
    /\ On("look", {"Relook", "Relook#2", "Relook#3"})
    /\ \E w \in warm,
          f \in {"lookup", "lookup1", "lookupAll", "names", "subscriptions",
                 "queryAdapterOf", "adapterHookOf", "queryMultiOf",
                 "subscribersOf"},
          nm \in Names, d \in Defaults :
        /\ (f \in {"lookup1", "queryAdapterOf", "adapterHookOf"}
                => Len(w[2]) = 1)
        /\ Emit([op |-> f, g |-> w[1], req |-> w[2], prov |-> w[3],
                 name |-> nm, default |-> d])
        /\ Same

LookupMulti ==
    /\ On("look", {"LookupMulti", "LookupMulti#2"})
    /\ \E f \in {"lookupAll", "names", "subscriptions", "allRegistrations",
                 "allSubscriptions"},
          g \in Gs, r \in LookReqs, p \in ProvR \cup {"None"} :
        /\ Emit([op |-> f, g |-> g, req |-> r, prov |-> p])
        /\ warm' = IF p = "None" THEN warm ELSE warm \cup {<<g, r, p>>}
        /\ UNCHANGED <<live, slive, bogus, renamed, hooks>>

\* object-based entry points; the looked-up specification is providedBy(x)
ObjLookup ==
    /\ On("look", {"ObjLookup", "ObjLookup#2"})
    /\ \E f \in {"queryAdapter", "adapter_hook", "queryMulti1", "subscribers1",
                 \* the same calls with every argument passed by keyword
                 "queryAdapterKw", "adapterHookKw", "queryMulti1Kw",
                 "lookupKw", "lookup1Kw"},
          g \in Gs, x \in AnyObj, p \in ProvR, nm \in GoodNames,
          d \in Defaults :
        /\ Emit([op |-> f, g |-> g, x |-> x, prov |-> p, name |-> nm,
                 default |-> d])
        /\ Same

ObjLookup2 ==
    /\ On("look", {"ObjLookup2"})
    /\ \E f \in {"queryMulti2", "subscribers2"},
          g \in Gs, x \in AnyObj, y \in Obj, p \in ProvR \cup {"None"},
          d \in Defaults :
        /\ Emit([op |-> f, g |-> g, x |-> x, y |-> y, prov |-> p,
                 default |-> d])
        /\ Same

\* non-iterable / odd `required` arguments
BadRequired ==
    /\ On("odd", {"BadRequired"})
    /\ \E f \in {"lookup", "lookupAll", "subscriptions", "register",
                 "subscribe"},
          g \in Gs, r \in {"x_int", "x_none", "x_str", "lazy:I1", "gen:I2"},
          p \in Ifc :
        /\ Emit([op |-> "badRequired", f |-> f, g |-> g, req |-> r,
                 prov |-> p])
        /\ Mutated
        /\ UNCHANGED <<live, slive, bogus, renamed, hooks>>

PickKinds == {"LookupLive", "LookupLive#2", "LookupLive#3", "SubsLive", "SubsLive#2", "BadName", "Adapt", "Adapt#2", "BadRequired", "ClassDecl", "Compare", "Compare#2", "DeclQuery", "HashEq", "IfaceQuery", "Lookup", "Lookup#2", "LookupMulti", "LookupMulti#2", "ObjDecl", "ObjDecl#2", "ObjLookup", "ObjLookup#2", "ObjLookup2", "Rebuild", "RegBases", "Register", "Register#2", "Register#3", "Relook", "Relook#2", "Relook#3", "Rename", "SetHooks", "SetProvides", "SortAll", "SpecBases", "SpecQuery", "Subscribe", "Subscribe#2", "Unregister", "Unsubscribe"}
Pick == /\ pick = "" /\ n < MaxLen
        /\ \E k \in PickKinds : pick' = k
        /\ act' = [op |-> "pick"]
        /\ UNCHANGED <<n, live, slive, warm, bogus, renamed, hooks>>
\* a kind whose family is disabled or that is not enabled now is dropped
Skip == /\ pick # "" /\ pick' = ""
        /\ act' = [op |-> "skip"]
        /\ UNCHANGED <<n, live, slive, warm, bogus, renamed, hooks>>

\* non-string names on every path that takes a name, cold (Relook covers the
\* warm-cache case)
BadName ==
    /\ On("odd", {"BadName"})
    /\ \E f \in {"register", "unregister", "lookup", "lookupList", "lookup1",
                 "registered", "queryAdapter", "adapter_hook", "queryMulti1"},
          g \in Gs, nm \in BadNames :
        /\ Emit(IF f \in {"queryAdapter", "adapter_hook", "queryMulti1"}
                THEN [op |-> f, g |-> g, x |-> "o1", prov |-> "I3",
                      name |-> nm, default |-> "D"]
                ELSE [op |-> f, g |-> g, req |-> <<"I1">>, prov |-> "I3",
                      name |-> nm, default |-> "D", val |-> "v1"])
        /\ Same

Init == /\ n = 0
        /\ pick = ""
        /\ live = {}
        /\ slive = {}
        /\ warm = {}
        /\ bogus = {}
        /\ renamed = {}
        /\ hooks = "none"
        /\ act = [op |-> "init"]

Next == \/ ClassDecl \/ ObjDecl \/ SetProvides
        \/ DeclQuery \/ IfaceQuery \/ SpecQuery
        \/ SetHooks \/ Adapt
        \/ Compare \/ HashEq \/ SortAll \/ Rename
        \/ Register \/ Unregister \/ Subscribe \/ Unsubscribe
        \/ RegBases \/ Rebuild \/ SpecBases
        \/ Lookup \/ LookupLive \/ SubsLive \/ Relook \/ LookupMulti \/ ObjLookup \/ ObjLookup2
        \/ BadRequired \/ BadName
        \/ Pick \/ Skip

Spec == Init /\ [][Next]_vars

\* sanity of the abstraction itself
TypeOK == /\ n \in 0..MaxLen
          /\ renamed \subseteq Ifc
          /\ bogus \subseteq Obj \cup OddObj
          /\ hooks \in HookSets
          /\ pick \in PickKinds \cup {""}
=============================================================================
