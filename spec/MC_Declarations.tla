--------------------------- MODULE MC_Declarations --------------------------
EXTENDS Declarations, Json

CONSTANTS MaxDepth, ArgLists, WithSuper, WithClassProv, Ops

VARIABLES act,    \* label of the last action (hidden by VIEW)
          hist    \* the behaviour that first reached this state (hidden)
allvars == <<vars, act, hist>>

IfaceArgs == 1..NI
CurStP == [hasSpec |-> hasSpec', declared |-> declared',
           inherit |-> inherit', cbases |-> cbases']


Step ==
    \/ \E c \in Classes :
          /\ Query(c)
          /\ act' = [op |-> "query", c |-> c]
    \/ \E c \in Classes, ifs \in ArgLists :
          /\ ClassImplements(c, ifs)
          /\ act' = [op |-> "classImplements", c |-> c, ifs |-> ifs]
    \/ \E c \in Classes, ifs \in ArgLists \cup {<<>>} :
          \* (the empty list: "implements nothing, inherits nothing")
          /\ ClassImplementsOnly(c, ifs)
          /\ act' = [op |-> "classImplementsOnly", c |-> c, ifs |-> ifs]
    \/ \E c \in Classes, i \in IfaceArgs :
          /\ ClassImplementsFirst(c, i)
          /\ act' = [op |-> "classImplementsFirst", c |-> c, ifs |-> <<i>>]
    \/ \E o \in Objs, ifs \in ArgLists \cup {<<>>} :
          /\ DirectlyProvides(o, ifs)
          /\ act' = [op |-> "directlyProvides", o |-> o, ifs |-> ifs]
    \/ \E o \in Objs, i \in IfaceArgs :
          /\ AlsoProvides(o, i)
          /\ act' = [op |-> "alsoProvides", o |-> o, ifs |-> <<i>>]
    \/ \E o \in Objs, i \in IfaceArgs :
          /\ NoLongerProvides(o, i)
          /\ act' = [op |-> "noLongerProvides", o |-> o, ifs |-> <<i>>,
                     raises |-> i \in ProvidedO(CurStP, prov', o)]
    \/ \E c \in Classes, ifs \in ArgLists :
          /\ WithClassProv
          /\ ClassProvides(c, ifs)
          /\ act' = [op |-> "classProvides", c |-> c, ifs |-> ifs]
    \/ \E c \in Classes, i \in IfaceArgs :
          /\ WithClassProv
          /\ AlsoClassProvides(c, i)
          /\ act' = [op |-> "alsoClassProvides", c |-> c, ifs |-> <<i>>]
    \/ \E t \in Classes, c \in Classes :
          /\ WithSuper
          /\ \E o \in Objs : ClassOf[o] = t
          /\ SuperQuery(t, c)
          /\ act' = [op |-> "superQuery", t |-> t, c |-> c]

\* depth bound as an action guard: the out-of-bound frontier is never
\* generated (as a CONSTRAINT it was re-generated and re-dumped once per
\* incoming transition)
DepthOK == TLCGet("level") < MaxDepth
Next == DepthOK /\ Step /\ act'.op \in Ops /\ hist' = Append(hist, act')

MCInit == Init /\ act = [op |-> "init"] /\ hist = <<>>
View == vars
Bound == TLCGet("level") <= MaxDepth

Key == [hasSpec |-> hasSpec, declared |-> declared, inherit |-> inherit,
        cbases |-> cbases, prov |-> prov, pcache |-> pcache, cprov |-> cprov,
        supercache |-> supercache, gMust |-> gMust, gMay |-> gMay,
        gInh |-> gInh, oMust |-> oMust, oMay |-> oMay]

SuperPairs == {<<t, c>> \in Classes \X Classes :
                  c \in SeqSet(Mro(t)) /\ \E o \in Objs : ClassOf[o] = t}

Obs == [objs |-> [o \in Objs |-> [must |-> MustObj(o), may |-> MayObj(o),
                                  \* directlyProvidedBy may leave out whatever
                                  \* the class implements (the shared
                                  \* declaration re-derives its bases when
                                  \* the class' declarations change)
                                  dmust |-> (Closure(oMust[o]) \
                                             MayCls(ClassOf[o])) \ {Root},
                                  dmay |-> Closure(oMay[o])]],
        clss |-> [c \in Classes |-> [must |-> MustCls(c), may |-> MayCls(c),
                                     cobj |-> ProvidedClassObj(c)]],
        sups |-> {[t |-> p[1], c |-> p[2],
                   must |-> {Root} \cup UNION {MustCls(k) :
                               k \in SeqSet(RestOfMro(p[1], p[2])) \ {0}},
                   may |-> {Root} \cup UNION {MayCls(k) :
                               k \in SeqSet(RestOfMro(p[1], p[2])) \ {0}}] :
                  p \in SuperPairs}]

Dump == PrintT(ToJson([kind |-> "obs", key |-> Key, hist |-> hist,
                       obs |-> Obs]))
\* every transition as a case: the first behaviour that reached its source
\* state, extended by the transition (the observation of the target state is
\* joined through Key); one case per STATE alone never exercises a
\* history-dependent defect whose final state also has a shorter history
EmitHist == PrintT(ToJson([kind |-> "edge", hist |-> hist', key |-> Key']))

Emit == PrintT(ToJson([lvl |-> TLCGet("level"), from |-> Key, act |-> act',
                       to |-> Key', obs |-> Obs']))

\* C01, last sentence: declarations do not disturb unrelated objects.
\* (Primed variables are passed explicitly: TLC evaluates a primed
\* application of an operator with RECURSIVE body extremely slowly.)
SameC(k) == ImplementedC(CurStP, k) = ImplementedC(CurSt, k)
SameO(p) == ProvidedO(CurStP, prov', p) = ProvidedO(CurSt, prov, p)
Unrelated ==
    [][/\ (act'.op \in {"classImplements", "classImplementsOnly",
                        "classImplementsFirst"}
              => /\ \A k \in Classes \ AffectedByClass(act'.c) : SameC(k)
                 /\ \A p \in Objs :
                       ClassOf[p] \notin AffectedByClass(act'.c) => SameO(p))
       /\ (act'.op \in {"directlyProvides", "alsoProvides",
                        "noLongerProvides"}
              => /\ \A k \in Classes : SameC(k)
                 /\ \A p \in Objs \ {act'.o} : SameO(p))
       /\ (act'.op \in {"classProvides", "alsoClassProvides", "query",
                        "superQuery"}
              => /\ \A k \in Classes : SameC(k)
                 /\ \A p \in Objs : SameO(p))]_allvars

\* interfaces: 1 IA, 2 IB(IA), 3 IC
IB_3 == (0 :> <<>>) @@ (1 :> <<>>) @@ (2 :> <<1>>) @@ (3 :> <<>>)
\* chain + sibling: 1 Base, 2 Mid(Base), 3 Leaf(Mid), 4 Sib(Base)
PY_Chain == (0 :> <<>>) @@ (1 :> <<0>>) @@ (2 :> <<1>>) @@ (3 :> <<2>>) @@
            (4 :> <<1>>)
\* diamond: 1 Base, 2 L(Base), 3 R(Base), 4 D(L, R)
PY_Diamond == (0 :> <<>>) @@ (1 :> <<0>>) @@ (2 :> <<1>>) @@ (3 :> <<1>>) @@
              (4 :> <<2, 3>>)
\* mixin: 1 Base, 2 Mid(Base), 3 Mix, 4 Leaf(Mid, Mix)
PY_Mixin == (0 :> <<>>) @@ (1 :> <<0>>) @@ (2 :> <<1>>) @@ (3 :> <<0>>) @@
            (4 :> <<2, 3>>)
\* triangle: 1 A, 2 B(A), 3 D(B, A)  (a direct base that is also reachable
\* through another direct base)
PY_Tri == (0 :> <<>>) @@ (1 :> <<0>>) @@ (2 :> <<1>>) @@ (3 :> <<2, 1>>)
CO_Tri == <<3, 3, 2>>
\* small: 1 Base, 2 K(Base)
PY_Two == (0 :> <<>>) @@ (1 :> <<0>>) @@ (2 :> <<1>>)
CO_Chain == <<3, 3, 4>>      \* o1, o2 : Leaf ; o3 : Sib
CO_Diamond == <<4, 4, 2>>
CO_Mixin == <<4, 4, 2>>
CO_Two == <<2, 2>>
AllOps == {"query", "classImplements", "classImplementsOnly",
           "classImplementsFirst", "directlyProvides", "alsoProvides",
           "noLongerProvides", "classProvides", "alsoClassProvides",
           "superQuery"}
ClassOps == {"query", "classImplements", "classImplementsOnly",
             "classImplementsFirst", "superQuery"}
Args1 == {<<i>> : i \in 1..3}
Args12 == Args1 \cup {<<1, 3>>, <<2, 3>>, <<3, 2>>}
=============================================================================
