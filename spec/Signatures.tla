----------------------------- MODULE Signatures -----------------------------
(***************************************************************************)
(* C17  verifyObject / verifyClass accept exactly the candidates meeting   *)
(*      the contract.                                                      *)
(* C18  method descriptions mirror the described function's real           *)
(*      signature.                                                         *)
(*                                                                         *)
(* Two layers are kept apart everywhere:                                   *)
(*   declarative  Params / Truth / Admits / Binds / Contract               *)
(*                what the property statements demand, phrased over the    *)
(*                parameter list of a Python "def";                        *)
(*   mechanism    Code / FromFunction / AbcWrapOld / Incompat /            *)
(*                VerifyAttr / VerifyMeth / Verify: one operator per step  *)
(*                of                                                       *)
(*                interface.py:fromFunction, fromMethod,                   *)
(*                common/__init__.py:__method_from_function,               *)
(*                verify.py:_incompat, _verify_element, _verify.           *)
(* The invariants say mechanism = declarative over a finite grid.  A state *)
(* of the model is ONE test case (variable "case"); there are no           *)
(* transitions.  Mode selects the grid:                                    *)
(*   "c18"   signature x context                 (DescribeIsTruth)         *)
(*   "pairs" interface sig x implementation sig  (IncompatIffUnbound,      *)
(*           x kind x tentative                   PairOutcome)             *)
(*   "agg"   candidates with several things wrong (Aggregation)            *)
(*                                                                         *)
(* Switches that model mechanisms which VIOLATE the property (the shipped  *)
(* configuration has all of them FALSE; with one of them TRUE TLC finds    *)
(* the counterexample):                                                    *)
(*   PinnedC18      argno = na (the pinned tree: keyword-only parameters   *)
(*                  are ignored when locating the * and ** names)          *)
(*   PinnedC18Self  imlevel is subtracted even when the function has no    *)
(*                  named positional parameter (self absorbed by *args);   *)
(*                  the tree before "fix: fromMethod/fromFunction with the *)
(*                  implied argument absorbed by *args"                    *)
(*   PinnedC18Abc   the ABC wrapper strips self from "positional" only,    *)
(*                  leaving it in "required"; the tree before "fix:        *)
(*                  ABC-derived interface methods listed 'self' ..."       *)
(***************************************************************************)
EXTENDS Integers, Sequences, FiniteSets, TLC

CONSTANTS PinnedC18, PinnedC18Self, PinnedC18Abc,
          Mode,
          MaxPO, MaxPK, MaxKO, MaxLoc, MaxTags,   \* C18 grid bounds
          MaxReq, MaxOpt,                         \* C17 pair grid bounds
          NAttr, NMeth, MStatuses                 \* C17 aggregation universe

VARIABLE case

NONE == "<None>"          \* Python's None (TLC cannot compare string and int)
NoDefault == -1

Min(a, b) == IF a < b THEN a ELSE b
Max(a, b) == IF a > b THEN a ELSE b

(***************************************************************************)
(* A signature.  po, pk COUNT a leading self when bound = TRUE.            *)
(*   po    number of positional-only parameters                            *)
(*   pk    number of positional-or-keyword parameters                      *)
(*   nd    number of trailing positional parameters that have a default    *)
(*   va    has *args          kw   has **kwargs                            *)
(*   ko    keyword-only parameters, in order; TRUE = has a default         *)
(*   bound the function is described as a method: the leading parameter    *)
(*         (or, when there is none, one slot of *args) receives self       *)
(*   nl    number of further local variables of the body                   *)
(***************************************************************************)
NPos(sig) == sig.po + sig.pk

PosName(sig, i) ==
    IF sig.bound /\ i = 1 THEN "self"
    ELSE IF i <= sig.po THEN "p" \o ToString(i) ELSE "a" \o ToString(i)
PosDefault(sig, i) == IF i > NPos(sig) - sig.nd THEN 100 + i ELSE NoDefault
KoName(j) == "k" \o ToString(j)
VaName == "va"
KwName == "kw"
LocName(j) == "loc" \o ToString(j)

(* The parameter list in SOURCE order (what one writes after "def f").     *)
Params(sig) ==
    [i \in 1..NPos(sig) |->
        [name |-> PosName(sig, i),
         kind |-> IF i <= sig.po THEN "po" ELSE "pk",
         dflt |-> PosDefault(sig, i)]]
    \o (IF sig.va THEN <<[name |-> VaName, kind |-> "va", dflt |-> NoDefault]>>
        ELSE <<>>)
    \o [j \in 1..Len(sig.ko) |->
        [name |-> KoName(j), kind |-> "ko",
         dflt |-> IF sig.ko[j] THEN 200 + j ELSE NoDefault]]
    \o (IF sig.kw THEN <<[name |-> KwName, kind |-> "kw", dflt |-> NoDefault]>>
        ELSE <<>>)

(* CPython's code object: co_varnames lists positional parameters, then    *)
(* keyword-only ones, then the * name, then the ** name, then locals.      *)
(* (Checked against the real code object by the harness: guard.)           *)
Layout(sig) ==
    [i \in 1..NPos(sig) |-> PosName(sig, i)]
    \o [j \in 1..Len(sig.ko) |-> KoName(j)]
    \o (IF sig.va THEN <<VaName>> ELSE <<>>)
    \o (IF sig.kw THEN <<KwName>> ELSE <<>>)
    \o [j \in 1..sig.nl |-> LocName(j)]

TagSet(nt) == {<<"t" \o ToString(i), "v" \o ToString(i)>> : i \in 1..nt}

Code(sig, nt) ==
    [argcount |-> NPos(sig),
     kwonly   |-> Len(sig.ko),
     varnames |-> Layout(sig),
     hasva    |-> sig.va,
     haskw    |-> sig.kw,
     defaults |-> [i \in 1..sig.nd |-> 100 + (NPos(sig) - sig.nd + i)],
     dict     |-> TagSet(nt)]

(***************************************************************************)
(* DECLARATIVE: what getSignatureInfo() must say (C18).                    *)
(***************************************************************************)
IsPositional(p) == p.kind \in {"po", "pk"}

(* The positional parameters a caller can fill: self is gone when bound.   *)
Visible(sig) ==
    LET pos == SelectSeq(Params(sig), IsPositional)
    IN  IF sig.bound /\ Len(pos) > 0 THEN Tail(pos) ELSE pos

Names(ps) == [i \in 1..Len(ps) |-> ps[i].name]
IsRequired(p) == p.dflt = NoDefault

Truth(sig) ==
    LET vis == Visible(sig)
    IN  [err        |-> NONE,
         positional |-> Names(vis),
         required   |-> Names(SelectSeq(vis, IsRequired)),
         optional   |-> {<<vis[i].name, vis[i].dflt>> :
                            i \in {j \in 1..Len(vis) : ~IsRequired(vis[j])}},
         varargs    |-> IF sig.va THEN VaName ELSE NONE,
         kwargs     |-> IF sig.kw THEN KwName ELSE NONE]

(***************************************************************************)
(* MECHANISM: Python slicing / indexing / zip, then fromFunction.          *)
(***************************************************************************)
PyNorm(i, n) == IF i < 0 THEN Max(i + n, 0) ELSE Min(i, n)
PySlice(s, lo, hi) ==
    LET l == PyNorm(lo, Len(s))
        h == PyNorm(hi, Len(s))
    IN  IF l >= h THEN <<>> ELSE SubSeq(s, l + 1, h)
PyFrom(s, lo) == PySlice(s, lo, Len(s))       \* s[lo:]
PyTo(s, hi)   == PySlice(s, 0, hi)            \* s[:hi]
PyItemOK(s, i) == IF i >= 0 THEN i < Len(s) ELSE -i <= Len(s)
PyItem(s, i)   == IF i >= 0 THEN s[i + 1] ELSE s[Len(s) + i + 1]
PyZip(a, b)    == {<<a[i], b[i]>> : i \in 1..Min(Len(a), Len(b))}

Raised(what) == [err |-> what, positional |-> <<>>, required |-> <<>>,
                 optional |-> {}, varargs |-> NONE, kwargs |-> NONE]

(* interface.py: fromFunction(func, interface, imlevel, name)              *)
FromFunction(code, imlevel0) ==
    LET imlevel  == IF PinnedC18Self THEN imlevel0
                    ELSE Min(imlevel0, code.argcount)
        na       == code.argcount - imlevel
        names    == PyFrom(code.varnames, imlevel)
        nr0      == na - Len(code.defaults)
        defaults == IF nr0 < 0 THEN PyFrom(code.defaults, -nr0)
                    ELSE code.defaults
        nr       == IF nr0 < 0 THEN 0 ELSE nr0
        opt      == PyZip(PyFrom(names, nr), defaults)
        argno0   == IF PinnedC18 THEN na ELSE na + code.kwonly
        argno1   == IF code.hasva THEN argno0 + 1 ELSE argno0
    IN  IF code.hasva /\ ~PyItemOK(names, argno0) THEN Raised("IndexError")
        ELSE IF code.haskw /\ ~PyItemOK(names, argno1)
             THEN Raised("IndexError")
        ELSE [err        |-> NONE,
              positional |-> PyTo(names, na),
              required   |-> PyTo(names, nr),
              optional   |-> opt,
              varargs    |-> IF code.hasva THEN PyItem(names, argno0)
                             ELSE NONE,
              kwargs     |-> IF code.haskw THEN PyItem(names, argno1)
                             ELSE NONE]

(* common/__init__.py: ABCInterfaceClass.__method_from_function, as it was  *)
(* before the repair: fromFunction(function) then positional[1:] only.     *)
AbcWrapOld(info) ==
    IF info.err # NONE THEN info
    ELSE [info EXCEPT !.positional = PyFrom(info.positional, 1)]

(* The ways a function gets described.                                     *)
(*   "function" fromFunction(f); the def inside an interface body          *)
(*   "method"   fromMethod(bound method), fromMethod(f),                   *)
(*              fromFunction(f, imlevel=1) (what verifyClass does)         *)
(*   "abc"      the interface generated from an abstract base class        *)
Describe(sig, nt, ctx) ==
    CASE ctx = "function" -> FromFunction(Code(sig, nt), 0)
      [] ctx = "method"   -> FromFunction(Code(sig, nt), 1)
      [] ctx = "abc"      -> IF PinnedC18Abc
                             THEN AbcWrapOld(FromFunction(Code(sig, nt), 0))
                             ELSE FromFunction(Code(sig, nt), 1)

(* for key, value in func.__dict__.items(): setTaggedValue(key, value)     *)
DescribeTags(code) == code.dict

(* Method.getSignatureString applied to a signature info.                  *)
RECURSIVE Join(_, _)
Join(toks, sep) ==
    IF toks = <<>> THEN ""
    ELSE IF Len(toks) = 1 THEN toks[1]
    ELSE toks[1] \o sep \o Join(Tail(toks), sep)

OptValue(info, v) == (CHOOSE p \in info.optional : p[1] = v)[2]
SigString(info) ==
    LET tok(i) == LET v == info.positional[i]
                  IN  IF \E p \in info.optional : p[1] = v
                      THEN v \o "=" \o ToString(OptValue(info, v))
                      ELSE v
        pos == [i \in 1..Len(info.positional) |-> tok(i)]
        va  == IF info.varargs # NONE THEN <<"*" \o info.varargs>> ELSE <<>>
        kw  == IF info.kwargs # NONE THEN <<"**" \o info.kwargs>> ELSE <<>>
    IN  "(" \o Join(pos \o va \o kw, ", ") \o ")"

(***************************************************************************)
(* C18 universe and invariant.                                             *)
(***************************************************************************)
KoChoices == UNION {[1..m -> BOOLEAN] : m \in 0..MaxKO}

SigGrid ==
    {s \in [po : 0..MaxPO, pk : 0..MaxPK, nd : 0..(MaxPO + MaxPK),
            va : BOOLEAN, ko : KoChoices, kw : BOOLEAN, bound : BOOLEAN,
            nl : 0..MaxLoc] :
        /\ s.nd <= s.po + s.pk
        (* a method without any slot for self cannot be bound;             *)
        (* inspect.signature raises ValueError: not introspectable         *)
        /\ (s.bound /\ s.po + s.pk = 0) => s.va}

CtxOf(sig) == IF sig.bound THEN {"method", "abc"} ELSE {"function"}

C18Cases == {[sig |-> s, ctx |-> c, nt |-> t] :
                s \in SigGrid, c \in {"function", "method", "abc"},
                t \in 0..MaxTags}

C18Universe == {c \in C18Cases : c.ctx \in CtxOf(c.sig)}

DescribeIsTruthAt(c) ==
    /\ Describe(c.sig, c.nt, c.ctx) = Truth(c.sig)
    /\ SigString(Describe(c.sig, c.nt, c.ctx)) = SigString(Truth(c.sig))
    /\ DescribeTags(Code(c.sig, c.nt)) = TagSet(c.nt)

(***************************************************************************)
(* C17, signatures.  The universe is what the property's quantifier names: *)
(* required positionals, defaulted positionals, *args, **kwargs on both    *)
(* sides.  Keyword-only and positional-only parameters, named keyword      *)
(* arguments and parameter NAMES are not decided by the statement and stay *)
(* outside.                                                                *)
(***************************************************************************)
PlainGrid == [req : 0..MaxReq, opt : 0..MaxOpt, va : BOOLEAN, kw : BOOLEAN]

ToSig(p, withself) ==
    [po |-> 0, pk |-> p.req + p.opt + (IF withself THEN 1 ELSE 0),
     nd |-> p.opt, va |-> p.va, ko |-> <<>>, kw |-> p.kw,
     bound |-> withself, nl |-> 0]

Surplus == MaxReq + MaxOpt + 2     \* more than any implementation has slots

(* DECLARATIVE: the call shapes an interface signature admits: each        *)
(* positional arity from required to all positionals, surplus positionals  *)
(* with *args, an arbitrary (unknown) keyword with **kwargs.               *)
Admits(isig) ==
    LET t == Truth(isig)
        arities == (Len(t.required)..Len(t.positional))
                   \cup (IF t.varargs # NONE
                         THEN (Len(t.positional) + 1)..Surplus ELSE {})
        nkws == {0} \cup (IF t.kwargs # NONE THEN {1} ELSE {})
    IN  {[npos |-> n, nkw |-> k] : n \in arities, k \in nkws}

(* DECLARATIVE: Python's binding rule for a call with npos positional      *)
(* arguments and nkw keywords that match no parameter name.                *)
Binds(shape, msig) ==
    LET vis == Visible(msig)
    IN  /\ (shape.npos <= Len(vis) \/ msig.va)
        /\ \A i \in 1..Len(vis) : i > shape.npos => ~IsRequired(vis[i])
        /\ \A j \in 1..Len(msig.ko) : msig.ko[j]
        /\ (shape.nkw = 0 \/ msig.kw)

Conforms(isig, msig) == \A sh \in Admits(isig) : Binds(sh, msig)

(* MECHANISM: verify.py _incompat(required, implemented)                   *)
Incompat(req, impl) ==
    IF Len(impl.required) > Len(req.required)
    THEN "implementation requires too many arguments"
    ELSE IF Len(impl.positional) < Len(req.positional) /\ impl.varargs = NONE
    THEN "implementation doesn't allow enough arguments"
    ELSE IF req.kwargs # NONE /\ impl.kwargs = NONE
    THEN "implementation doesn't support keyword arguments"
    ELSE IF req.varargs # NONE /\ impl.varargs = NONE
    THEN "implementation doesn't support variable arguments"
    ELSE NONE

(* How the attribute found on the candidate is turned into a description   *)
(* (_verify_element):                                                      *)
(*   "func"  plain function found on an instance    fromFunction(attr)     *)
(*   "bound" bound method found on an instance      fromMethod(attr)       *)
(*   "class" function found on the class, vtype 'c' fromFunction(imlevel=1)*)
(*   "cfunc" plain function found on a NON-class candidate of verifyClass  *)
(*           (a factory declared with implementer(): nothing receives      *)
(*           self there)                            fromFunction(attr)     *)
Kinds == {"func", "bound", "class", "cfunc"}
Unbound(kind) == kind \in {"func", "cfunc"}
ImplSig(msig, kind) == ToSig(msig, ~Unbound(kind))
ImplInfo(msig, kind) ==
    Describe(ImplSig(msig, kind), 0, IF Unbound(kind) THEN "function"
                                     ELSE "method")
IfaceInfo(isig) == Describe(ToSig(isig, FALSE), 0, "function")

PairUniverse == [isig : PlainGrid, msig : PlainGrid, kind : Kinds,
                 tent : BOOLEAN]

IncompatIffUnboundAt(c) ==
    /\ IfaceInfo(c.isig).err = NONE
    /\ ImplInfo(c.msig, c.kind).err = NONE
    /\ (Incompat(IfaceInfo(c.isig), ImplInfo(c.msig, c.kind)) # NONE)
         <=> ~Conforms(ToSig(c.isig, FALSE), ImplSig(c.msig, c.kind))

(***************************************************************************)
(* C17, aggregation.  An interface I(I0) with attributes and methods, some *)
(* of them defined in the base I0; a candidate which may be undeclared,    *)
(* lack attributes, lack methods, carry a non-callable or a callable that  *)
(* cannot be introspected where a method is expected, or a method with a   *)
(* good / bad signature.  Whether "good"/"bad" conform is COMPUTED.        *)
(***************************************************************************)
P(r, o, v, k) == [req |-> r, opt |-> o, va |-> v, kw |-> k]

AttrTable == <<[name |-> "a1", inbase |-> FALSE],
               [name |-> "a2", inbase |-> TRUE],
               [name |-> "a3", inbase |-> FALSE]>>

MethTable ==
  <<[name |-> "m1", inbase |-> FALSE, isig |-> P(1, 1, FALSE, FALSE),
     good |-> P(1, 1, FALSE, FALSE), bad |-> P(2, 0, FALSE, FALSE)],
    [name |-> "m2", inbase |-> TRUE, isig |-> P(0, 0, TRUE, TRUE),
     good |-> P(0, 2, TRUE, TRUE), bad |-> P(0, 1, FALSE, TRUE)],
    [name |-> "m3", inbase |-> FALSE, isig |-> P(2, 0, FALSE, FALSE),
     good |-> P(1, 0, TRUE, FALSE), bad |-> P(1, 0, FALSE, TRUE)],
    [name |-> "m4", inbase |-> TRUE, isig |-> P(0, 1, FALSE, TRUE),
     good |-> P(0, 1, FALSE, TRUE), bad |-> P(0, 1, TRUE, FALSE)]>>

AllMStatuses == {"missing", "noncallable", "opaque", "builtin", "good", "bad"}

AggUniverse ==
    [declared : BOOLEAN, tent : BOOLEAN, vtype : {"o", "c"},
     attrs : [1..NAttr -> {"present", "missing"}],
     meths : [1..NMeth -> MStatuses]]

DNI == <<"DoesNotImplement", "">>
BI(name) == <<"BrokenImplementation", name>>
BMI(name) == <<"BrokenMethodImplementation", name>>

MSigOf(m, st) == IF st = "good" THEN MethTable[m].good ELSE MethTable[m].bad
AggKind(vtype) == IF vtype = "c" THEN "class" ELSE "bound"

(* MECHANISM: _verify_element for an Attribute / a Method: sequence of the *)
(* exceptions raised (none or one).                                        *)
VerifyAttr(a, st, vtype) ==
    IF st = "missing"
    THEN (IF vtype = "c" THEN <<>> ELSE <<BI(AttrTable[a].name)>>)
    ELSE <<>>

VerifyMeth(m, st, vtype) ==
    LET nm == MethTable[m].name
    IN  IF st = "missing" THEN <<BI(nm)>>
        ELSE IF st = "builtin" THEN <<>>
        ELSE IF st \in {"good", "bad"}
        THEN (IF Incompat(IfaceInfo(MethTable[m].isig),
                          ImplInfo(MSigOf(m, st), AggKind(vtype))) # NONE
              THEN <<BMI(nm)>> ELSE <<>>)
        ELSE IF st = "noncallable" THEN <<BMI(nm)>>
        ELSE <<>>

RECURSIVE Flatten(_)
Flatten(ss) == IF ss = <<>> THEN <<>> ELSE Head(ss) \o Flatten(Tail(ss))
SeqRange(s) == {s[i] : i \in 1..Len(s)}

Outcome(n, set) ==
    [res  |-> IF n = 0 THEN "Ok" ELSE IF n = 1 THEN "Single" ELSE "Multiple",
     n    |-> n,
     excs |-> set]

(* MECHANISM: _verify                                                      *)
Verify(c) ==
    LET excs == (IF ~c.tent /\ ~c.declared THEN <<DNI>> ELSE <<>>)
                \o Flatten([a \in 1..NAttr |->
                               VerifyAttr(a, c.attrs[a], c.vtype)])
                \o Flatten([m \in 1..NMeth |->
                               VerifyMeth(m, c.meths[m], c.vtype)])
    IN  Outcome(Len(excs), SeqRange(excs))

(* DECLARATIVE: the set of individual failures of a candidate.  By         *)
(* documented design a class is not required to carry the non-method       *)
(* attributes (instances may get them in __init__).                        *)
Failures(c) ==
    (IF ~c.tent /\ ~c.declared THEN {DNI} ELSE {})
    \cup {BI(AttrTable[a].name) :
            a \in {x \in 1..NAttr : c.attrs[x] = "missing" /\ c.vtype = "o"}}
    \cup {BI(MethTable[m].name) :
            m \in {x \in 1..NMeth : c.meths[x] = "missing"}}
    \cup {BMI(MethTable[m].name) :
            m \in {x \in 1..NMeth :
                     \/ c.meths[x] = "noncallable"
                     \/ /\ c.meths[x] \in {"good", "bad"}
                        /\ ~Conforms(ToSig(MethTable[x].isig, FALSE),
                                     ImplSig(MSigOf(x, c.meths[x]),
                                             AggKind(c.vtype)))}}

Contract(c) == Outcome(Cardinality(Failures(c)), Failures(c))

(* A pair is the aggregation universe with exactly one method.             *)
PairVerify(c) ==
    IF Incompat(IfaceInfo(c.isig), ImplInfo(c.msig, c.kind)) # NONE
    THEN Outcome(1, {BMI("m")}) ELSE Outcome(0, {})
PairContract(c) ==
    IF Conforms(ToSig(c.isig, FALSE), ImplSig(c.msig, c.kind))
    THEN Outcome(0, {}) ELSE Outcome(1, {BMI("m")})

(***************************************************************************)
(* The model: one state per case.                                          *)
(***************************************************************************)
Cases == CASE Mode = "c18"   -> C18Universe
           [] Mode = "pairs" -> PairUniverse
           [] Mode = "agg"   -> AggUniverse

Init == case \in Cases
Next == UNCHANGED case

DescribeIsTruth    == Mode = "c18"   => DescribeIsTruthAt(case)
IncompatIffUnbound == Mode = "pairs" => IncompatIffUnboundAt(case)
PairOutcome        == Mode = "pairs" => PairVerify(case) = PairContract(case)
Aggregation        == Mode = "agg"   => Verify(case) = Contract(case)
=============================================================================
