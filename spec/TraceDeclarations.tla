-------------------------- MODULE TraceDeclarations --------------------------
(***************************************************************************)
(* Code -> spec conformance for declarations (C01): validates traces       *)
(* RECORDED from the real code - the repository's own doctests             *)
(* (docs/README.rst, docs/api/declarations.rst, ...) run with a recorder   *)
(* wrapped around the declaration API - against the ghost [must, may]      *)
(* interval of Declarations.tla.                                           *)
(*                                                                         *)
(* A trace: a header (the classes created during the run with their direct *)
(* bases, the instances with their class, the interfaces with their        *)
(* ancestors) and one event per OUTERMOST public call:                     *)
(*   classImplements / classImplementsFirst / classImplementsOnly          *)
(*     (also reached through the implementer / implementer_only            *)
(*     decorators), directlyProvides / alsoProvides / noLongerProvides     *)
(*     (also through provider; on instances and on classes taken as        *)
(*     objects), I.__bases__ = ... (event "rebase"), and the queries       *)
(*     providedBy(ob), implementedBy(cls), I.providedBy(ob),               *)
(*     I.implementedBy(cls).                                               *)
(* The specification carries only the ghost state of Declarations.tla      *)
(* (what was declared, and what was possibly redundant when declared); an  *)
(* observed answer must lie in the interval it defines.  Anything the      *)
(* model does not cover makes its target "untracked" rather than guessed:  *)
(* classes that existed (or were declared) before the recorder saw them,   *)
(* classes with such a base, declarations whose arguments are not plain    *)
(* interfaces (a specification passed as an argument stays linked to its   *)
(* owner).                                                                 *)
(***************************************************************************)
EXTENDS Integers, Sequences, FiniteSets, TLC, Json, IOUtils

Traces == ndJsonDeserialize(IOEnv.TRACE_FILE)

VARIABLES tid, l,
          gMust, gMay,   \* [class id -> SUBSET iface ids]
          gInh,          \* [class id -> BOOLEAN]
          oMust, oMay,   \* [object id -> SUBSET iface ids]
          untrC, untrO,  \* untracked classes / objects
          ianc,          \* [iface id -> its ancestors, as last reported]
          nj,            \* queries judged so far (vacuity guard)
          mismatch

vars == <<tid, l, gMust, gMay, gInh, oMust, oMay, untrC, untrO, ianc, nj,
         mismatch>>

T == Traces[tid]
Ev == T.ev[l]
Root == 0
SeqSet(s) == {s[i] : i \in DOMAIN s}

ClassIds == {T.classes[i].c : i \in DOMAIN T.classes}
ObjIds == {T.objs[i].o : i \in DOMAIN T.objs}
BasesOf(c) == (CHOOSE r \in SeqSet(T.classes) : r.c = c).bases
ClassOf(o) == (CHOOSE r \in SeqSet(T.objs) : r.o = o).cls
IAnc(i) == IF i \in DOMAIN ianc THEN ianc[i] ELSE {i, Root}
AncTable(rows, old) ==
    [i \in {rows[k].i : k \in DOMAIN rows} \cup DOMAIN old |->
        LET hit == {r \in SeqSet(rows) : r.i = i}
        IN IF hit = {} THEN old[i]
           ELSE SeqSet((CHOOSE r \in hit : TRUE).anc) \cup {i, Root}]
Closure(S) == UNION {IAnc(i) : i \in S} \cup {Root}

RECURSIVE MayC(_, _, _)
MayC(may, inh, c) ==
    IF c \notin ClassIds THEN {Root}
    ELSE Closure(may[c]) \cup
         (IF inh[c] THEN UNION {MayC(may, inh, BasesOf(c)[k]) :
                                   k \in DOMAIN BasesOf(c)} ELSE {})
MustCls(c) == MayC(gMust, gInh, c)
MayCls(c) == MayC(gMay, gInh, c)
MustObj(o) == Closure(oMust[o]) \cup MustCls(ClassOf(o))
MayObj(o) == Closure(oMay[o]) \cup MayCls(ClassOf(o))

\* equal twins: same __module__ and __name__, distinct objects - ONE key in
\* every implied dict, and which of two twins a declaration naming both
\* keeps is documented as unspecified (docs/api/specifications.rst).  A
\* target whose declarations may hold two of them is not judged.
Key(i) == LET hit == {r \in SeqSet(T.ikey) : r.i = i}
          IN IF hit = {} THEN 0 ELSE (CHOOSE r \in hit : TRUE).k
TwinClash(S) == \E x, y \in S : x # y /\ x # Root /\ y # Root /\
                                Key(x) = Key(y)

RECURSIVE ClsUntracked(_)
ClsUntracked(c) ==
    \/ c \notin ClassIds
    \/ c \in untrC
    \/ \E k \in DOMAIN BasesOf(c) :
          BasesOf(c)[k] # 0 /\ ClsUntracked(BasesOf(c)[k])
\* (class 0: `object`, or the metaclass `type` of a class taken as an
\* object - directlyProvides(cls, ...), provider - which implement nothing)
ObjUntracked(o) == \/ o \in untrO \/ o \notin ObjIds
                   \/ ClassOf(o) # 0 /\ ClsUntracked(ClassOf(o))

Step(mm) ==
    /\ mismatch' = IF mismatch # <<>> THEN mismatch ELSE mm
    /\ l' = l + 1 /\ UNCHANGED <<tid, nj, ianc>>

\* a query: judged unless its target is untracked
Query(untracked, mm) ==
    /\ mismatch' = IF mismatch # <<>> \/ untracked THEN mismatch ELSE mm
    /\ nj' = IF untracked THEN nj ELSE nj + 1
    /\ l' = l + 1 /\ UNCHANGED <<tid, ianc>>

Bad(what, must, may, got) ==
    <<"trace", tid, "event", l, what, "must", must, "may", may,
      "observed", got>>

Within(what, must, may, got) ==
    IF must \subseteq got /\ got \subseteq may THEN <<>>
    ELSE Bad(what, must, may, got)

Next ==
    /\ l <= Len(T.ev)
    /\ LET e == Ev
           ifs == IF "ifs" \in DOMAIN e THEN SeqSet(e.ifs) ELSE {}
           \* a declaration made from inside a change notification: what
           \* the declaring code takes as "already implied" may be the
           \* state before or after the outer declaration - nothing of it
           \* is certain to be recorded as declared, all of it may be
           re == "re" \in DOMAIN e /\ e.re
           sure == IF re THEN {} ELSE ifs
       IN
       CASE e.op \in {"classImplements", "classImplementsFirst"} ->
              /\ gMay' = [gMay EXCEPT ![e.c] = @ \cup ifs]
              /\ gMust' = [gMust EXCEPT ![e.c] =
                              @ \cup {x \in sure : x \notin MayCls(e.c)}]
              /\ untrC' = IF e.opaque THEN untrC \cup {e.c} ELSE untrC
              /\ UNCHANGED <<gInh, oMust, oMay, untrO>>
              /\ Step(<<>>)
         [] e.op = "classImplementsOnly" ->
              /\ gMay' = [gMay EXCEPT ![e.c] = ifs]
              /\ gMust' = [gMust EXCEPT ![e.c] = sure]
              /\ gInh' = [gInh EXCEPT ![e.c] = FALSE]
              /\ untrC' = IF e.opaque THEN untrC \cup {e.c} ELSE untrC
              /\ UNCHANGED <<oMust, oMay, untrO>>
              /\ Step(<<>>)
         [] e.op = "directlyProvides" ->
              /\ oMay' = [oMay EXCEPT ![e.o] = ifs]
              /\ oMust' = [oMust EXCEPT ![e.o] =
                              {x \in sure : x \notin MayCls(ClassOf(e.o))}]
              /\ untrO' = IF e.opaque THEN untrO \cup {e.o} ELSE untrO
              /\ UNCHANGED <<gMust, gMay, gInh, untrC>>
              /\ Step(<<>>)
         [] e.op = "alsoProvides" ->
              /\ oMay' = [oMay EXCEPT ![e.o] = @ \cup ifs]
              /\ oMust' = [oMust EXCEPT ![e.o] =
                              \* alsoProvides re-declares what the
                              \* instance declaration lists at that moment:
                              \* from inside a notification that list may
                              \* not be re-derived yet (the elision of what
                              \* the class implied BEFORE the outer call
                              \* still applied) - nothing is certain
                              IF re THEN {}
                              ELSE {x \in @ \cup sure :
                                      x \notin MayCls(ClassOf(e.o))}]
              /\ untrO' = IF e.opaque THEN untrO \cup {e.o} ELSE untrO
              /\ UNCHANGED <<gMust, gMay, gInh, untrC>>
              /\ Step(<<>>)
         [] e.op = "noLongerProvides" ->
              LET keep(x) == \A i \in ifs : i \notin IAnc(x)
              IN /\ oMay' = [oMay EXCEPT ![e.o] = {x \in @ : keep(x)}]
                 /\ oMust' = [oMust EXCEPT ![e.o] =
                                 {x \in @ : keep(x) /\
                                     x \notin MayCls(ClassOf(e.o))}]
                 \* removal is by equality: a twin of a declared interface
                 /\ untrO' = IF e.opaque \/ TwinClash(MayObj(e.o) \cup ifs)
                             THEN untrO \cup {e.o} ELSE untrO
                 /\ UNCHANGED <<gMust, gMay, gInh, untrC>>
                 /\ Step(<<>>)
         [] e.op = "exception" ->
              \* the drivers only make valid calls
              /\ UNCHANGED <<gMust, gMay, gInh, oMust, oMay, untrC, untrO>>
              /\ Step(<<"trace", tid, "event", l, "exception", e.what>>)
         [] e.op = "rebase" ->
              \* I.__bases__ = ...: the declared sets stand, every closure
              \* moves with the graph
              /\ ianc' = AncTable(e.ianc, ianc)
              /\ l' = l + 1
              /\ UNCHANGED <<tid, gMust, gMay, gInh, oMust, oMay, untrC,
                             untrO, nj, mismatch>>
         [] e.op = "providedBy" ->
              /\ UNCHANGED <<gMust, gMay, gInh, oMust, oMay, untrC, untrO>>
              /\ Query(ObjUntracked(e.o) \/ TwinClash(MayObj(e.o)),
                       Within("providedBy", MustObj(e.o), MayObj(e.o),
                              SeqSet(e.res) \cup {Root}))
         [] e.op = "directlyProvidedBy" ->
              \* what was declared on the object itself, less what its
              \* class implements (elided as redundant; MC_Declarations.Obs)
              /\ UNCHANGED <<gMust, gMay, gInh, oMust, oMay, untrC, untrO>>
              /\ Query(ObjUntracked(e.o) \/ TwinClash(MayObj(e.o)),
                       Within("directlyProvidedBy",
                              (Closure(oMust[e.o]) \
                                  MayCls(ClassOf(e.o))) \cup {Root},
                              Closure(oMay[e.o]),
                              SeqSet(e.res) \cup {Root}))
         [] e.op = "implementedBy" ->
              /\ UNCHANGED <<gMust, gMay, gInh, oMust, oMay, untrC, untrO>>
              /\ Query(ClsUntracked(e.c) \/ TwinClash(MayCls(e.c)),
                       Within("implementedBy", MustCls(e.c), MayCls(e.c),
                              SeqSet(e.res) \cup {Root}))
         [] e.op = "IprovidedBy" ->
              /\ UNCHANGED <<gMust, gMay, gInh, oMust, oMay, untrC, untrO>>
              /\ Query(ObjUntracked(e.o) \/
                          TwinClash(MayObj(e.o) \cup {e.i}),
                       IF (e.res /\ e.i \notin MayObj(e.o)) \/
                          (~e.res /\ e.i \in MustObj(e.o))
                       THEN Bad("I.providedBy", MustObj(e.o), MayObj(e.o),
                                <<e.i, e.res>>)
                       ELSE <<>>)
         [] e.op = "IimplementedBy" ->
              /\ UNCHANGED <<gMust, gMay, gInh, oMust, oMay, untrC, untrO>>
              /\ Query(ClsUntracked(e.c) \/
                          TwinClash(MayCls(e.c) \cup {e.i}),
                       IF (e.res /\ e.i \notin MayCls(e.c)) \/
                          (~e.res /\ e.i \in MustCls(e.c))
                       THEN Bad("I.implementedBy", MustCls(e.c), MayCls(e.c),
                                <<e.i, e.res>>)
                       ELSE <<>>)

Init == /\ tid \in DOMAIN Traces
        /\ l = 1
        /\ gMust = [c \in ClassIds |-> {}]
        /\ gMay = [c \in ClassIds |-> {}]
        /\ gInh = [c \in ClassIds |-> TRUE]
        /\ oMust = [o \in ObjIds |-> {}]
        /\ oMay = [o \in ObjIds |-> {}]
        /\ untrC = {T.untracked[i] : i \in DOMAIN T.untracked}
        /\ untrO = IF "untrackedO" \in DOMAIN T
                  THEN {T.untrackedO[i] : i \in DOMAIN T.untrackedO} ELSE {}
        /\ ianc = AncTable(T.ianc, <<>>)
        /\ nj = 0
        /\ mismatch = <<>>

NoMismatch == mismatch = <<>>
\* always true; reports how many queries of each trace were judged
Judged == l = Len(T.ev) + 1 => PrintT(<<"judged", tid, nj>>)
=============================================================================
