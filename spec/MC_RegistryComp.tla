-------------------------- MODULE MC_RegistryComp ---------------------------
(***************************************************************************)
(* Component registries (zope.interface.registry.Components) as a layer    *)
(* over Registry.tla: a Components object OWNS two adapter registries       *)
(* (.adapters, .utilities) and maps its own __bases__ onto theirs          *)
(* (Components._setBases).  The registries are OBJECTS of their own: when  *)
(* Components.__init__ / _init_registries runs again on a live object (the *)
(* long-standing idiom for resetting a global registry, see the XXX in     *)
(* Components.__init__) the component gets FRESH registries, while every   *)
(* component below it stays chained to the registries it was given when    *)
(* its __bases__ was last assigned -- until somebody assigns its __bases__ *)
(* again, which must re-attach it even if the tuple of Components is the   *)
(* same as before.                                                         *)
(*                                                                         *)
(* Registry identities 1..NG are a pool: components 1..NC start with       *)
(* registries 1..NC, CompReinit(c) takes the next unused identity.         *)
(* Every mutator / query of MC_Registry is available on the registries     *)
(* that currently belong to a component; the registries left behind stay   *)
(* part of the state (they are still consulted by whoever is chained to    *)
(* them) and are still observed.                                           *)
(*                                                                         *)
(* Properties: all of Registry.tla's (C04-C08 hold for the registry graph  *)
(* whatever the component layer does) plus                                 *)
(*   LinkedUnlessStale : a component's registry is based on exactly the    *)
(*       CURRENT registries of its base components, unless one of those    *)
(*       was re-initialised since its __bases__ was last assigned (C06 at  *)
(*       the Components level);                                            *)
(*   AssignRelinks (action property): assigning __bases__ -- any tuple,    *)
(*       the same one included -- and re-running __init__ leave the        *)
(*       component linked.                                                 *)
(***************************************************************************)
EXTENDS MC_Registry

CONSTANTS NC,            \* components 1..NC  (NC <= NG)
          InitCBases,    \* <<bases of component 1, ...>>
          CBaseChoices   \* set of <<c, bases>> for CompSetBases

VARIABLES comp,          \* [Comps -> Regs]: the registry a component owns now
          cbases,        \* [Comps -> Seq(Comps)]: Components.__bases__
          nalloc,        \* registry identities handed out so far
          stale          \* components chained to a registry that one of their
                         \* bases no longer owns

Comps == 1..NC
cvars == <<vars, comp, cbases, nalloc, stale>>
callvars == <<cvars, act>>

MapB(cm, nb) == [i \in DOMAIN nb |-> cm[nb[i]]]
Current == {comp[c] : c \in Comps}
Linked(c) == rbases[comp[c]] = MapB(comp, cbases[c])

InitC ==
    /\ InitReg(InitSBases,
               [g \in Regs |-> IF g <= NC THEN InitCBases[g] ELSE <<>>])
    /\ comp = [c \in Comps |-> c]
    /\ cbases = [c \in Comps |-> InitCBases[c]]
    /\ nalloc = NC
    /\ stale = {}
    /\ act = [op |-> "init"]

\* sub.__bases__ = (base, ...): Components._setBases assigns
\* adapters.__bases__ / utilities.__bases__ = the bases' CURRENT registries
CompSetBases(c, nb) ==
    /\ DepthOK
    /\ c \notin SeqSet(nb)
    /\ SetRegBases(comp[c], MapB(comp, nb))
    /\ cbases' = [cbases EXCEPT ![c] = nb]
    /\ stale' = stale \ {c}
    /\ UNCHANGED <<comp, nalloc>>
    /\ act' = [op |-> "compSetBases", c |-> c, nb |-> nb, g |-> comp[c],
               rb |-> MapB(comp, nb)]

\* c.__init__(name, c.__bases__): _init_registries() creates fresh, empty
\* registries, then __bases__ is assigned (the same tuple of Components)
CompReinit(c) ==
    LET k == nalloc + 1
    IN /\ DepthOK
       /\ k <= NG
       /\ SetRegBases(k, MapB(comp, cbases[c]))
       /\ comp' = [comp EXCEPT ![c] = k]
       /\ nalloc' = k
       /\ stale' = (stale \ {c}) \cup {d \in Comps : c \in SeqSet(cbases[d])}
       /\ UNCHANGED cbases
       /\ act' = [op |-> "compReinit", c |-> c, nb |-> cbases[c], g |-> k,
                  rb |-> MapB(comp, cbases[c])]

OnCurrent(a) == ("g" \in DOMAIN a) => a.g \in Current

NextC ==
    \/ /\ Next
       /\ OnCurrent(act')
       /\ UNCHANGED <<comp, cbases, nalloc, stale>>
    \/ \E ch \in CBaseChoices : CompSetBases(ch[1], ch[2])
    \/ \E c \in Comps : CompReinit(c)

ViewC == cvars
BoundC == Bound

LinkedUnlessStale == \A c \in Comps : (c \notin stale) <=> Linked(c)

AssignRelinksStep ==
    act'.op \in {"compSetBases", "compReinit"} =>
        /\ rbases'[comp'[act'.c]] = MapB(comp', cbases'[act'.c])
        /\ act'.c \notin stale'
AssignRelinks == [][AssignRelinksStep]_callvars

KeyC == [k |-> Key, comp |-> comp, cbases |-> cbases, nalloc |-> nalloc,
         stale |-> stale]
EmitC == PrintT(ToJson([kind |-> "edge", lvl |-> TLCGet("level"),
                        from |-> KeyC, act |-> act', to |-> KeyC']))
DumpObsC == PrintT(ToJson([kind |-> "obs", key |-> KeyC,
                           obs |-> [g \in Regs |-> ObsOf(g)]]))

\* ---- universes
CB_Chain2 == << <<>>, <<1>> >>
CB_Chain3 == << <<>>, <<1>>, <<2>> >>
CBaseChoices2 == {<<2, <<>> >>, <<2, <<1>> >>}
CBaseChoices3 == {<<2, <<>> >>, <<2, <<1>> >>, <<3, <<2>> >>, <<3, <<1>> >>,
                  <<3, <<2, 1>> >>}
=============================================================================
