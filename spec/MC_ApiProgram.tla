---------------------------- MODULE MC_ApiProgram ---------------------------
(* Program generator instance of ApiProgram.tla: `tlc -generate` walks random *)
(* behaviours; every step's operation is printed (one JSON line) and the      *)
(* harness executes each behaviour under both implementations.                *)
EXTENDS ApiProgram, Json

AllFamilies == {"decl", "query", "adapt", "cmp", "reg", "look", "odd"}
RegFamilies == {"reg", "look", "odd"}
DeclFamilies == {"decl", "query", "adapt", "odd"}
CmpFamilies == {"cmp", "query"}

View == <<n, live, slive, warm, bogus, renamed, hooks, pick>>
Emit1 == act'.op \in {"pick", "skip"} \/
         PrintT(ToJson([lvl |-> TLCGet("level"), act |-> act']))
=============================================================================
