----------------------------- MODULE LookupWalk -----------------------------
(***************************************************************************)
(* The INTERIOR of an uncached lookup (adapter.py: the module functions    *)
(* _lookup and _subscriptions called by AdapterLookupBase._uncached_lookup *)
(* / _uncached_subscriptions; _lookupAll walks like _subscriptions)        *)
(* interrupted by ONE complete mutation of the registry -- register /      *)
(* unregister / subscribe / unsubscribe including its bookkeeping of the   *)
(* extendor lists -- between two of its container accesses.                *)
(*                                                                         *)
(* LookupMem.tla treats `self._uncached_*()` as reading one data version;  *)
(* this module opens that step up.  Every `components.get(...)` of the     *)
(* walk is a point where other code can run: another thread between two    *)
(* bytecodes, or -- deterministically -- the container itself when the     *)
(* registry uses a custom _mappingType (the documented hook persistent     *)
(* registries use: loading a ghost runs arbitrary code).                   *)
(*                                                                         *)
(* Mechanism.  The nested {spec: {provided: {name: value}}} mappings are    *)
(* mutated IN PLACE (the walker sees the current contents of whatever      *)
(* mapping it holds; a pruned mapping is empty).  The per-provided         *)
(* extendor list is fetched ONCE before the walk and iterated at every     *)
(* leaf level; add_extendor / remove_extendor REPLACE the list             *)
(* (copy on write), so the walker keeps iterating the list it fetched.     *)
(* Constant ExtInPlace = TRUE models the alternative (remove_extendor      *)
(* shrinking the list in place: seeded change C11_c); Python's list        *)
(* iterators are index based, forwards and backwards.                      *)
(*                                                                         *)
(* Property (C11, second sentence): the interrupted walk returns an        *)
(* answer that was correct either before or after the mutation.            *)
(***************************************************************************)
EXTENDS Integers, Sequences, FiniteSets, TLC

CONSTANTS ExtInPlace,   \* FALSE: extendor lists are replaced (shipped)
          Kinds         \* subset of {"lookup", "subs"}

\* required: the looked-up specification R2 extends R1: sro = <<2, 1>>
Sro == <<2, 1>>
\* provided: 1 = P (the one asked for), 2 = PA(P), 3 = PB(P)
Provs == {1, 2, 3}
Ext1(p, q) == p = q \/ q = 1          \* p isOrExtends q
NONE == 0
Val(r, p) == 10 * r + p               \* the value registered under (r, p)

VARIABLES leaf,     \* [1..2 -> [Provs -> NONE or value]]  (subs: one value)
          pcnt,     \* [Provs -> Nat]  _provided reference counts
          ext,      \* current extendor list of P (sequence of Provs)
          kind,     \* which walker runs
          mut,      \* the mutation that may interrupt: [op, r, p]
          done,     \* has it run?
          wext,     \* the list object the walker iterates: "old" snapshot
          ri, pi,   \* walker position: index into Sro; position in the list
          res,      \* lookup: NONE or value; subs: sequence of values
          fin,      \* walker finished
          before, after,  \* declarative answers around the mutation
          order     \* order in which the provided interfaces were first
                    \* registered (fixes the extendor list; never changes)

vars == <<leaf, pcnt, ext, kind, mut, done, wext, ri, pi, res, fin,
          before, after, order>>

SeqSet(s) == {s[i] : i \in DOMAIN s}

\* add_extendor / remove_extendor on the list kept for P (= 1)
AddExt(x, p) == SelectSeq(x, LAMBDA e : Ext1(p, e)) \o <<p>> \o
                SelectSeq(x, LAMBDA e : ~Ext1(p, e))
RemExt(x, p) == SelectSeq(x, LAMBDA e : e # p)

(***************************************************************************)
(* Declarative answers on a frozen state                                   *)
(***************************************************************************)
LookupOn(lf, x) ==
    LET hits == {<<i, j>> \in (DOMAIN Sro) \X (DOMAIN x) :
                    lf[Sro[i]][x[j]] # NONE}
        best == CHOOSE h \in hits : \A g \in hits :
                    h[1] < g[1] \/ (h[1] = g[1] /\ h[2] <= g[2])
    IN IF hits = {} THEN NONE ELSE lf[Sro[best[1]]][x[best[2]]]

RECURSIVE Cat(_)
Cat(ss) == IF ss = <<>> THEN <<>> ELSE Head(ss) \o Cat(Tail(ss))
Rev(s) == [i \in DOMAIN s |-> s[Len(s) + 1 - i]]

\* reversed(sro) outer, reversed(extendors) inner
SubsOn(lf, x) ==
    Cat([i \in DOMAIN Sro |->
          Cat([j \in DOMAIN x |->
                 LET v == lf[Rev(Sro)[i]][Rev(x)[j]]
                 IN IF v = NONE THEN <<>> ELSE <<v>>])])

Answer(k, lf, x) == IF k = "lookup" THEN LookupOn(lf, x) ELSE SubsOn(lf, x)

(***************************************************************************)
(* The mutation (complete call: data, reference count, extendor list)      *)
(***************************************************************************)
Muts == {[op |-> o, r |-> r, p |-> p] : o \in {"add", "del"}, r \in 1..2,
                                        p \in Provs}

ApplyLeaf(lf, m) == [lf EXCEPT ![m.r][m.p] =
                        IF m.op = "add" THEN Val(m.r, m.p) ELSE NONE]
ApplyCnt(pc, m) == [pc EXCEPT ![m.p] = IF m.op = "add" THEN @ + 1 ELSE @ - 1]
ApplyExt(x, pc, m) ==
    IF m.op = "add" /\ pc[m.p] = 0 THEN AddExt(x, m.p)
    ELSE IF m.op = "del" /\ pc[m.p] = 1 THEN RemExt(x, m.p)
    ELSE x
Enabled(lf, m) == IF m.op = "add" THEN lf[m.r][m.p] = NONE
                  ELSE lf[m.r][m.p] # NONE

Mutate ==
    /\ ~done /\ ~fin
    /\ leaf' = ApplyLeaf(leaf, mut)
    /\ pcnt' = ApplyCnt(pcnt, mut)
    /\ ext' = ApplyExt(ext, pcnt, mut)
    \* copy on write: the walker keeps the list it fetched; in place (only
    \* removal shrinks in place): the walker's list IS the current one
    /\ wext' = IF ExtInPlace /\ mut.op = "del" THEN ext' ELSE wext
    /\ done' = TRUE
    /\ UNCHANGED <<kind, mut, ri, pi, res, fin, before, after, order>>

(***************************************************************************)
(* The walker: one step per container access                               *)
(***************************************************************************)
\* _lookup: for spec in sro: comps = components.get(spec); if comps:
\*            for iface in provided: c = comps.get(iface); if c: r = c.get(name)
\* An empty / missing spec-level mapping skips the inner loop.
RowEmpty(r) == \A p \in Provs : leaf[r][p] = NONE

StepLookup ==
    IF ri > Len(Sro) THEN fin' = TRUE /\ UNCHANGED <<ri, pi, res>>
    ELSE IF pi = 0
         THEN \* components.get(spec)
              IF RowEmpty(Sro[ri]) THEN ri' = ri + 1 /\ UNCHANGED <<pi, res, fin>>
              ELSE pi' = 1 /\ UNCHANGED <<ri, res, fin>>
    ELSE IF pi > Len(wext)
         THEN ri' = ri + 1 /\ pi' = 0 /\ UNCHANGED <<res, fin>>
    ELSE \* comps.get(iface) [+ get(name)]: list iterator is index based
         LET v == leaf[Sro[ri]][wext[pi]]
         IN IF v # NONE THEN res' = v /\ fin' = TRUE /\ UNCHANGED <<ri, pi>>
            ELSE pi' = pi + 1 /\ UNCHANGED <<ri, res, fin>>

\* _subscriptions: reversed(sro) outer; reversed(provided) inner.  A reverse
\* list iterator holds an index counting down and stops for good as soon as
\* the index is outside the (possibly shrunk) list.
StepSubs ==
    IF ri > Len(Sro) THEN fin' = TRUE /\ UNCHANGED <<ri, pi, res>>
    ELSE LET r == Rev(Sro)[ri] IN
         IF pi = 0
         THEN IF RowEmpty(r) THEN ri' = ri + 1 /\ UNCHANGED <<pi, res, fin>>
              ELSE pi' = Len(wext) + 1 /\ UNCHANGED <<ri, res, fin>>
                   \* pi - 1 is the next index to visit (1-based); the
                   \* iterator was created on the list as it is NOW
         ELSE LET idx == pi - 1 IN
              IF idx < 1 \/ idx > Len(wext)
              THEN ri' = ri + 1 /\ pi' = 0 /\ UNCHANGED <<res, fin>>
              ELSE LET v == leaf[r][wext[idx]]
                   IN /\ res' = IF v = NONE THEN res ELSE Append(res, v)
                      /\ pi' = pi - 1
                      /\ UNCHANGED <<ri, fin>>

Step ==
    /\ ~fin
    /\ IF kind = "lookup" THEN StepLookup ELSE StepSubs
    /\ UNCHANGED <<leaf, pcnt, ext, kind, mut, done, wext, before, after,
                   order>>

(***************************************************************************)
(* Initial states: every registry content reachable by registrations in    *)
(* some order (the order fixes the extendor list), every single mutation   *)
(***************************************************************************)
Perms(S) == {s \in [1..Cardinality(S) -> S] :
                \A i, j \in 1..Cardinality(S) : i # j => s[i] # s[j]}
RECURSIVE Fold(_, _)
Fold(x, s) == IF s = <<>> THEN x ELSE Fold(AddExt(x, Head(s)), Tail(s))

LeafOf(m) == [r \in 1..2 |-> [p \in Provs |->
                 IF m[r][p] THEN Val(r, p) ELSE NONE]]
LeafStates == {LeafOf(m) : m \in [1..2 -> [Provs -> BOOLEAN]]}

Init ==
    /\ leaf \in LeafStates
    /\ order \in Perms({p \in Provs : \E r \in 1..2 : leaf[r][p] # NONE})
    /\ ext = Fold(<<>>, order)
    /\ pcnt = [p \in Provs |-> Cardinality({r \in 1..2 : leaf[r][p] # NONE})]
    /\ kind \in Kinds
    /\ mut \in {m \in Muts : Enabled(leaf, m)}
    /\ done = FALSE
    /\ wext = ext
    /\ ri = 1 /\ pi = 0
    /\ res = IF kind = "lookup" THEN NONE ELSE <<>>
    /\ fin = FALSE
    /\ before = Answer(kind, leaf, ext)
    /\ after = Answer(kind, ApplyLeaf(leaf, mut), ApplyExt(ext, pcnt, mut))

Next == Step \/ Mutate

\* C11: a lookup interrupted by a mutation returns an answer that was correct
\* either before or after the mutation
BeforeOrAfter == fin => (res = before \/ res = after)

TypeOK == /\ SeqSet(ext) = {p \in Provs : pcnt[p] > 0}
          /\ \A p \in Provs :
                pcnt[p] = Cardinality({r \in 1..2 : leaf[r][p] # NONE})
=============================================================================
