----------------------------- MODULE DeclAlgebra -----------------------------
(***************************************************************************)
(* C20: the algebra of interface declarations.                             *)
(*                                                                         *)
(* Static world: interfaces 1..NI over an ordered-base DAG IBases, node 0  *)
(* is the root zope.interface.Interface, and three class-specification     *)
(* nodes                                                                   *)
(*     ObjSpec  = implementedBy(object)                 bases ()           *)
(*     BaseSpec = implementedBy(B)  / implementedBy(K)  bases H + ObjSpec  *)
(*     LeafSpec = implementedBy(C(B)) / Provides(K, *D) bases D + BaseSpec *)
(* ("declared D, then inherited H"), plus DeclNode, the Declaration under  *)
(* study, whose bases are the normalised constructor arguments.            *)
(*                                                                         *)
(* Mechanism side (one operator per code step, declarations.py /           *)
(* interface.py / ro.py):                                                  *)
(*   Normalize      = _normalizeargs (flatten nested sequences and         *)
(*                    Declarations in place; interfaces and class          *)
(*                    specifications are kept as they are)                 *)
(*   Interfaces     = Specification.interfaces / InterfaceClass.interfaces *)
(*   InMech         = Declaration.__contains__                             *)
(*   Sro, FlatMech  = Specification._calculate_sro (C3 merge as written in *)
(*                    ro.py, legacy fallback, root forced last), __iro__,  *)
(*                    Declaration.flattened                                *)
(*   SubMech        = Declaration.__sub__                                  *)
(*   AddMech        = Declaration.__add__ (the two-list algorithm)         *)
(*   AlsoMech, NlpMech, DirectlyProvidedBy = the users alsoProvides,       *)
(*                    noLongerProvides, directlyProvidedBy                 *)
(* Declarative side: FirstOcc, Leaves, IterSpec, FlatExact/FlatAdm (C3 of  *)
(* C3Ops or any valid linearisation), SubSpec, AddLawPred/AddAdm.          *)
(* The laws of C20 are the invariants at the end: mechanism = contract.    *)
(* All operators are functions of their arguments only; the last clause of *)
(* C20 ("none of these operations modifies its operands") is what makes    *)
(* that a faithful model, and is checked on the implementation by the      *)
(* replay (iteration and __bases__ of both operands before and after).     *)
(***************************************************************************)
EXTENDS C3Ops, TLC

CONSTANTS NI,        \* interfaces are 1..NI
          IBases,    \* [0..NI -> Seq(1..NI)] ordered bases, IBases[0] = <<>>
          OldAdd,    \* TRUE: model the pre-5.4.0 "+" (new interfaces always
                     \*       appended); self-test, shipped configs use FALSE
          ExactSub   \* TRUE: model a "-" that removes only the named
                     \*       interfaces (keeps sub-interfaces); self-test

VARIABLE cs          \* the case under study (a single operand or a pair)

Ifaces   == 0..NI
ObjSpec  == NI + 1
BaseSpec == NI + 2
LeafSpec == NI + 3
DeclNode == NI + 4
IsIfc(x) == x <= NI

(***************************************************************************)
(* generic helpers                                                         *)
(***************************************************************************)
FirstOcc(s) ==
    \* the first occurrences of s, in order
    LET tagged == [i \in DOMAIN s |-> <<i, s[i]>>]
        kept   == SelectSeq(tagged,
                            LAMBDA p : \A j \in 1..(p[1] - 1) : s[j] # p[2])
    IN [k \in DOMAIN kept |-> kept[k][2]]

Restrict(s, S) == SelectSeq(s, LAMBDA x : x \in S)
Pos(s, x) == IndexOf(s, x)

RECURSIVE PermRec(_)
PermRec(S) == IF S = {} THEN {<<>>}
              ELSE UNION {{<<x>> \o p : p \in PermRec(S \ {x})} : x \in S}

SeqsNoDup(S, k) == UNION {{s \in [1..m -> S] : NoDup(s)} : m \in 0..k}

(***************************************************************************)
(* the inheritance relation between interfaces                             *)
(***************************************************************************)
\* Specification._implied of an interface (C02: reachable set plus root)
Anc == [i \in Ifaces |-> ReachSet(IBases, i) \cup {Root}]
ProperAnc(i) == Anc[i] \ {i}

\* all orderings of a set of interfaces (tabulated once)
PermTab == [S \in SUBSET Ifaces |-> PermRec(S)]
PermSeqs(S) == PermTab[S]

\* Specification.extends(other, strict) between two interfaces
Extends(i, j, strict) == j \in Anc[i] /\ ((~strict) \/ i # j)

(***************************************************************************)
(* the specification graph with the class specifications                   *)
(***************************************************************************)
Graph(D, H) ==
    [n \in 0..LeafSpec |->
        IF IsIfc(n) THEN IBases[n]
        ELSE IF n = ObjSpec THEN <<>>
        ELSE IF n = BaseSpec THEN H \o <<ObjSpec>>
        ELSE D \o <<BaseSpec>>]

WithDecl(g, bs) == g @@ (DeclNode :> bs)

ImpliedOf(g, n) == ReachSet(g, n) \cup {Root}

\* classImplements(C, *D) on a fresh class C(B) / Provides(K, *D): declared
\* interfaces already implied by the inherited specification are elided
\* (the root only by Provides).  C20 speaks about declarations that list
\* what they were built from, so class specifications are used as operands
\* only where nothing is elided (elision is the subject of C01).
NoElisionImpl(D, H) ==
    \A k \in DOMAIN D : D[k] = Root \/ D[k] \notin ImpliedOf(Graph(<<>>, H), BaseSpec)
NoElisionProv(D, H) ==
    \A k \in DOMAIN D : D[k] \notin ImpliedOf(Graph(<<>>, H), BaseSpec)

(***************************************************************************)
(* Mechanism: iteration                                                    *)
(***************************************************************************)
RECURSIVE AppendNew(_, _)
AppendNew(acc, s) ==
    \* "if interface not in seen: seen[interface] = 1; yield interface"
    IF s = <<>> THEN acc
    ELSE AppendNew(IF Head(s) \in SeqSet(acc) THEN acc
                   ELSE Append(acc, Head(s)), Tail(s))

RECURSIVE Interfaces(_, _), IfacesOfBases(_, _)
\* Specification.interfaces on the object whose __bases__ are bs
IfacesOfBases(g, bs) ==
    LET RECURSIVE Loop(_, _)
        Loop(acc, k) == IF k > Len(bs) THEN acc
                        ELSE Loop(AppendNew(acc, Interfaces(g, bs[k])), k + 1)
    IN Loop(<<>>, 1)
\* InterfaceClass.interfaces yields the interface itself
Interfaces(g, n) == IF IsIfc(n) THEN <<n>> ELSE IfacesOfBases(g, g[n])

(***************************************************************************)
(* Mechanism: _normalizeargs.  An argument item is a record                *)
(*   [k |-> 0, i |-> node, s |-> <<>>]   an interface or a class spec      *)
(*   [k |-> 1, i |-> -1,   s |-> items]  a tuple / list of items           *)
(*   [k |-> 2, i |-> -1,   s |-> items]  Declaration( *items) as argument  *)
(***************************************************************************)
Atom(n)   == [k |-> 0, i |-> n,  s |-> <<>>]
Tup(its)  == [k |-> 1, i |-> -1, s |-> its]
Decl(its) == [k |-> 2, i |-> -1, s |-> its]
AtomsOf(s) == [j \in DOMAIN s |-> Atom(s[j])]

RECURSIVE Normalize(_, _)
Normalize(g, items) ==
    IF items = <<>> THEN <<>>
    ELSE LET it == Head(items)
             out == CASE it.k = 0 -> <<it.i>>            \* output.append
                      [] it.k = 1 -> Normalize(g, it.s)  \* for v in sequence
                      \* for v in declaration: iterates its interfaces()
                      [] it.k = 2 -> IfacesOfBases(g, Normalize(g, it.s))
         IN out \o Normalize(g, Tail(items))

\* list(Declaration( *items))
IterMech(g, items) == IfacesOfBases(g, Normalize(g, items))

\* Declaration.__contains__ :
\*   self.extends(interface) and interface in self.interfaces()
InMech(g, bs, i) ==
    /\ i \in ImpliedOf(WithDecl(g, bs), DeclNode)
    /\ i \in SeqSet(IfacesOfBases(g, bs))
\* the same for every interface at once (the two sets evaluated once)
InMechAll(g, bs) ==
    LET imp == ImpliedOf(WithDecl(g, bs), DeclNode)
        its == SeqSet(IfacesOfBases(g, bs))
    IN [i \in Ifaces |-> i \in imp /\ i \in its]

(***************************************************************************)
(* Mechanism: resolution order (ro.py as written; a sequence whose head is *)
(* the candidate is skipped by _can_choose_base, so duplicated bases are   *)
(* tolerated)                                                              *)
(***************************************************************************)
CanChoose(h, ne) ==
    \A j \in DOMAIN ne : ne[j][1] = h \/ h \notin SeqSet(ne[j])

RECURSIVE MergeRO(_)
MergeRO(seqs) ==
    LET ne == SelectSeq(seqs, LAMBDA s : s # <<>>)
    IN IF ne = <<>> THEN <<>>
       ELSE LET cands == {i \in DOMAIN ne : CanChoose(ne[i][1], ne)}
            IN IF cands = {} THEN FAIL
               ELSE LET h == ne[Min(cands)][1]
                        rest == MergeRO([j \in DOMAIN ne |-> Without(ne[j], h)])
                    IN IF rest = FAIL THEN FAIL ELSE <<h>> \o rest

RECURSIVE LFlatten(_, _)
LFlatten(g, n) ==
    \* ro._legacy_flatten: depth-first pre-order over __bases__
    LET RECURSIVE Cat(_)
        Cat(i) == IF i > Len(g[n]) THEN <<>>
                  ELSE LFlatten(g, g[n][i]) \o Cat(i + 1)
    IN <<n>> \o Cat(1)

KeepLast(s) ==
    \* ro._legacy_mergeOrderings on one ordering
    LET tagged == [i \in DOMAIN s |-> <<i, s[i]>>]
        kept   == SelectSeq(tagged, LAMBDA p :
                       \A j \in (p[1] + 1)..Len(s) : s[j] # p[2])
    IN [k \in DOMAIN kept |-> kept[k][2]]

ForceRootLast(s) ==
    IF s # <<>> /\ s[Len(s)] = Root THEN s ELSE Without(s, Root) \o <<Root>>

RECURSIVE Sro(_, _)
Sro(g, n) ==
    \* Specification._calculate_sro over the bases' cached __sro__
    IF n = Root THEN <<Root>>
    ELSE LET m == MergeRO([k \in DOMAIN g[n] |-> Sro(g, g[n][k])] \o <<g[n]>>)
         IN ForceRootLast(IF m = FAIL THEN KeepLast(LFlatten(g, n))
                          ELSE <<n>> \o m)

\* list(spec.flattened()) = __iro__ = the interfaces of __sro__
FlatMech(g, n) == SelectSeq(Sro(g, n), IsIfc)

(***************************************************************************)
(* Mechanism: - and +  (on the operands' iteration lists a, b)             *)
(***************************************************************************)
SubMech(a, b) ==
    \* [i for i in self.interfaces()
    \*    if not [j for j in other.interfaces() if i.extends(j, 0)]]
    SelectSeq(a, LAMBDA i :
        SelectSeq(b, LAMBDA j : IF ExactSub THEN i = j
                                 ELSE Extends(i, j, FALSE)) = <<>>)

RECURSIVE AddLoop(_, _, _, _)
AddLoop(before, result, seen, rest) ==
    IF rest = <<>> THEN before \o result       \* Declaration( *(before+result))
    ELSE LET i == Head(rest)
         IN IF i \in seen
               THEN AddLoop(before, result, seen, Tail(rest))
            ELSE IF (~OldAdd) /\ \E k \in DOMAIN result :
                                     Extends(i, result[k], TRUE)
               THEN AddLoop(Append(before, i), result, seen \cup {i},
                            Tail(rest))
               ELSE AddLoop(before, Append(result, i), seen \cup {i},
                            Tail(rest))
AddMech(a, b) == AddLoop(<<>>, a, SeqSet(a), b)

(***************************************************************************)
(* Mechanism: the users (objects of a class that declares nothing)         *)
(***************************************************************************)
\* directlyProvides(ob, *items); directlyProvidedBy(ob) =
\* Declaration(provides.__bases__[:-1]); Provides strips what the class
\* already implies, for a plain class that is the root only.
DirectlyProvidedBy(items) ==
    LET g == Graph(<<>>, <<>>)
        kept == SelectSeq(Normalize(g, items),
                          LAMBDA x : x \notin ImpliedOf(g, BaseSpec))
    IN IfacesOfBases(g, kept)
\* alsoProvides(ob, *b) = directlyProvides(ob, directlyProvidedBy(ob), *b)
AlsoMech(a, b) ==
    DirectlyProvidedBy(<<Decl(AtomsOf(DirectlyProvidedBy(AtomsOf(a))))>>
                       \o AtomsOf(b))
\* noLongerProvides(ob, i) for each i of b in turn =
\*   directlyProvides(ob, directlyProvidedBy(ob) - i)
RECURSIVE NlpMech(_, _)
NlpMech(a, b) ==
    IF b = <<>> THEN DirectlyProvidedBy(AtomsOf(a))
    ELSE NlpMech(DirectlyProvidedBy(<<Decl(AtomsOf(
                     SubMech(DirectlyProvidedBy(AtomsOf(a)), <<Head(b)>>)))>>),
                 Tail(b))

(***************************************************************************)
(* Declarative side                                                        *)
(***************************************************************************)
\* what a class specification lists: declared, then inherited
SpecLists(g, n) ==
    IF IsIfc(n) THEN <<n>>
    ELSE IF n = ObjSpec THEN <<>>
    ELSE IF n = BaseSpec THEN FirstOcc(SubSeq(g[n], 1, Len(g[n]) - 1))
    ELSE FirstOcc(SubSeq(g[n], 1, Len(g[n]) - 1)
                  \o SubSeq(g[BaseSpec], 1, Len(g[BaseSpec]) - 1))

\* the leaves of a nested argument structure, left to right, in place
RECURSIVE Leaves(_)
Leaves(items) ==
    IF items = <<>> THEN <<>>
    ELSE (IF Head(items).k = 0 THEN <<Head(items).i>>
          ELSE Leaves(Head(items).s)) \o Leaves(Tail(items))

\* "yields exactly the interfaces it was built from, without duplicates and
\*  in declaration order"
IterSpec(g, items) ==
    LET lv == Leaves(items)
    IN FirstOcc(Concat([k \in DOMAIN lv |-> SpecLists(g, lv[k])]))

\* everything the listed interfaces are or extend
Closure(S) == UNION {Anc[i] : i \in S}

\* resolution order: the C3 linearisation where the hierarchy has one, else
\* any order that lists every specification before what it extends (C03)
FlatExact(g, n) ==
    \* duplicate bases are not a hierarchy C3 is defined on: first occurrences
    LET gg == [m \in DOMAIN g |-> FirstOcc(g[m])]
        c  == C3(gg, n)
    IN IF c = FAIL THEN FAIL ELSE SelectSeq(c, IsIfc)
FlatAdmDecl(C) ==
    {s \in PermSeqs(C) :
        \A p, q \in DOMAIN s : s[q] \in ProperAnc(s[p]) => p < q}
\* the same set built front to back (next: an interface that no remaining
\* one extends), tabulated once; LinExtLaw (a constant formula, evaluated
\* once) equates the two
RECURSIVE TopSorts(_)
TopSorts(S) ==
    IF S = {} THEN {<<>>}
    ELSE UNION {{<<x>> \o p : p \in TopSorts(S \ {x})} :
                x \in {y \in S : \A z \in S : y \notin ProperAnc(z)}}
LinExt == [S \in SUBSET Ifaces |-> TopSorts(S)]
FlatAdm(S) == LinExt[Closure(S) \cup {Root}]
LinExtLaw == \A C \in {Closure(S) \cup {Root} : S \in SUBSET Ifaces} :
                LinExt[C] = FlatAdmDecl(C)

\* A - B
SubSpec(a, b) ==
    Restrict(a, {x \in SeqSet(a) :
                   \A y \in SeqSet(b) : x # y /\ y \notin ProperAnc(x)})

\* A + B : r is an admissible result
NewOf(a, b) == SeqSet(b) \ SeqSet(a)
ExtendsSome(n, S) == \E x \in S : x \in ProperAnc(n)
AddLawPred(a, b, r) ==
    /\ NoDup(r)
    /\ SeqSet(r) = SeqSet(a) \cup SeqSet(b)
    /\ \E k \in 0..(Len(r) - Len(a)) :
          \* A's interfaces in A's order; every new one before or after them
          /\ SubSeq(r, k + 1, k + Len(a)) = a
          /\ \A n \in NewOf(a, b) :
                /\ ExtendsSome(n, SeqSet(a)) => Pos(r, n) <= k
                /\ (~ExtendsSome(n, SeqSet(a) \cup SeqSet(b)))
                       => Pos(r, n) > k + Len(a)
                \* a new interface that extends only other new interfaces
                \* of B: either side (DESIGN.md, C20 notes)

\* the same set, constructively (cheap enough for every pair)
AddAdm(a, b) ==
    LET new   == NewOf(a, b)
        front == {n \in new : ExtendsSome(n, SeqSet(a))}
        back  == {n \in new : ~ExtendsSome(n, SeqSet(a) \cup SeqSet(b))}
        free  == new \ (front \cup back)
    IN IF a = <<>>
          THEN PermSeqs(new)   \* nothing to be in front of or behind
          ELSE UNION {{f \o a \o t : f \in PermSeqs(front \cup F),
                                     t \in PermSeqs(back \cup (free \ F))} :
                      F \in SUBSET free}

(***************************************************************************)
(* Laws.  Single-operand cases:                                            *)
(*   cs = [op, d, h, items]  op 0: Declaration( *items) in Graph(d, h)     *)
(*                           op 1: implementedBy(C) (LeafSpec of (d, h))   *)
(*                           op 2: Provides(K, *d)  (LeafSpec of (d, h))   *)
(* Pair cases: cs = [a, b], two duplicate-free iteration lists.            *)
(***************************************************************************)
CaseGraph == Graph(cs.d, cs.h)
CaseBases == IF cs.op = 0 THEN Normalize(CaseGraph, cs.items)
             ELSE CaseGraph[LeafSpec]
CaseFull  == WithDecl(CaseGraph, CaseBases)
CaseNode  == IF cs.op = 0 THEN DeclNode ELSE LeafSpec
CaseItems == IF cs.op = 0 THEN cs.items ELSE <<Atom(LeafSpec)>>

CaseIter  == IfacesOfBases(CaseGraph, CaseBases)
CaseMem   == InMechAll(CaseGraph, CaseBases)
CaseFlat  == FlatMech(CaseFull, CaseNode)
CaseExact == FlatExact(CaseFull, CaseNode)
CaseAdm   == FlatAdm(SeqSet(CaseIter))

IterLaw ==
    /\ CaseIter = IterSpec(CaseGraph, CaseItems)
    /\ NoDup(CaseIter)
InLaw ==
    LET mem == CaseMem
        its == SeqSet(IterSpec(CaseGraph, CaseItems))
    IN /\ \A i \in Ifaces : mem[i] = (i \in its)
       /\ mem[Root] = InMech(CaseGraph, CaseBases, Root)
FlatLaw ==
    LET flat  == CaseFlat
        exact == CaseExact
        adm   == CaseAdm
    IN /\ SeqSet(flat) = Closure(SeqSet(CaseIter)) \cup {Root}
       /\ flat \in adm
       /\ exact # FAIL => /\ flat = exact
                          /\ exact \in adm
\* the normalised bases never nest: "flattened in place"
NormalizeLaw ==
    cs.op = 0 => /\ \A k \in DOMAIN CaseBases :
                       IsIfc(CaseBases[k]) \/ CaseBases[k] \in {BaseSpec, LeafSpec}
                 /\ Normalize(CaseGraph, AtomsOf(CaseBases)) = CaseBases

SubLaw ==
    /\ SubMech(cs.a, cs.b) = SubSpec(cs.a, cs.b)
    /\ SeqSet(SubMech(cs.a, cs.b)) \subseteq SeqSet(cs.a)
AddLaw ==
    /\ AddLawPred(cs.a, cs.b, AddMech(cs.a, cs.b))
    /\ AddMech(cs.a, cs.b) \in AddAdm(cs.a, cs.b)
\* the constructive admissible set is exactly the set the law describes
AddAdmIsLaw(maxcard) ==
    LET u == SeqSet(cs.a) \cup SeqSet(cs.b)
    IN Cardinality(u) <= maxcard =>
          AddAdm(cs.a, cs.b) = {r \in PermSeqs(u) : AddLawPred(cs.a, cs.b, r)}
\* users: only where the root is not involved (Provides elides it, C01)
UsersApply == Root \notin SeqSet(cs.a) \cup SeqSet(cs.b)
AlsoSpec(a, b) == FirstOcc(a \o b)
UsersLaw ==
    UsersApply => /\ DirectlyProvidedBy(AtomsOf(cs.a)) = cs.a
                  /\ AlsoMech(cs.a, cs.b) = AlsoSpec(cs.a, cs.b)
                  /\ NlpMech(cs.a, cs.b) = SubSpec(cs.a, cs.b)

Next == UNCHANGED cs
=============================================================================
