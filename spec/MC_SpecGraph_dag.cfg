CONSTANTS
  N = 4
  MaxB = 3
  IsIface <- AllIface4
  DefChoices <- NoDef
  RootExplicit = TRUE
  PinnedC03 = FALSE
  PinnedC15 = FALSE
INIT Init
NEXT Next
CHECK_DEADLOCK FALSE
INVARIANT TypeOK
INVARIANT ImpliedIsReach
INVARIANT SroSetIsReach
INVARIANT FreshEquiv
INVARIANT SroValid
INVARIANT SroIsC3
INVARIANT StrictIff
INVARIANT MemoSound
INVARIANT AccessorsAgree
INVARIANT Dump
