--------------------------- MODULE TraceLookupMem ---------------------------
(* Validates call logs recorded from real lookup threads racing a mutator   *)
(* (harness/replay_lookupmem.py, mode "threads") against the C11 contract   *)
(* of LookupMem.tla: every completed call answered with the data version of *)
(* some mutation between the last one completed before its invocation and   *)
(* the last one begun before its return (AnswerLinearizable), and no call   *)
(* raised (LookupOnlyThreadsClean / no exception because of the mutator).   *)
(* Each log line is <<inv, ans, ret, exc>>.                                 *)
EXTENDS Integers, Sequences, TLC, Json, IOUtils

Log == ndJsonDeserialize(IOEnv.TRACE_FILE)

VARIABLE i
Init == i = 1
Next == i <= Len(Log) /\ i' = i + 1

RecordOK(r) == r[4] = 0 /\ r[1] <= r[2] /\ r[2] <= r[3]
LogOK == i <= Len(Log) => RecordOK(Log[i])
AllSeen == TLCGet("level") = Len(Log) + 1 \/ TRUE
=============================================================================
