----------------------------- MODULE SpecGraph -----------------------------
(***************************************************************************)
(* The specification graph of zope.interface: specifications (interfaces,  *)
(* class declarations, instance declarations, plain Declarations) with     *)
(* ORDERED base lists, the cached resolution order (__sro__/__iro__), the  *)
(* cached implied set (_implied), the weak dependents table (_dependents)  *)
(* and the per-specification attribute memo (_v_attrs).                    *)
(*                                                                         *)
(* Mechanism side (shaped like interface.py / ro.py):                      *)
(*   CalcSro  = Specification._calculate_sro  (C3 merge over the bases'    *)
(*              CACHED __sro__, legacy fallback, root forced last)         *)
(*   Prop     = Specification.changed  (recompute self, then recurse into  *)
(*              dependents in insertion order; depth first, repeated)      *)
(*   SetBases = Specification.__setBases (unsubscribe old, subscribe new,  *)
(*              changed)                                                   *)
(*   Get      = Specification.get (walk __iro__, memoize hits)             *)
(* Declarative side: Reach, C3 (recursive definition), ValidLin, Resolve.  *)
(* Properties: C02 (ImpliedIsReach, DepsExact, FreshEquiv),                *)
(*             C03 (SroValid, SroIsC3, StrictIff),                         *)
(*             C15 (MemoSound, AccessorsAgree).                            *)
(***************************************************************************)
EXTENDS C3Ops, TLC

CONSTANTS N,          \* non-root specifications are 1..N ; 0 is Interface
          IsIface,    \* [1..N -> BOOLEAN]  interface or declaration-like
          RootExplicit, \* TRUE: every base list is non-empty and may name
                      \* Interface explicitly (class I(Interface)); FALSE:
                      \* Interface is never listed (InterfaceClass("I")).
                      \* Mixing both styles in one hierarchy is outside the
                      \* universe (see DESIGN.md, C03 notes).
          PinnedC03,  \* TRUE: model ro.is_consistent as shipped at the pin
          PinnedC15   \* TRUE: model names/namesAndDescriptions as shipped

VARIABLES bases,      \* [0..N -> Seq(0..N)]   Specification._bases
          sro,        \* [0..N -> Seq(0..N)]   cached __sro__
          implied,    \* [0..N -> SUBSET 0..N] cached _implied (key set)
          deps,       \* [0..N -> Seq([d, c])] _dependents, insertion order
          memo,       \* [0..N -> -1..N]       _v_attrs entry for name "a"
          defA        \* SUBSET 1..N, never changes: the nodes that directly
                      \* define name "a" (and tag "t", and one invariant)

vars == <<bases, sro, implied, deps, memo, defA>>

Nodes == 1..N
AllNodes == 0..N
NoOwner == -1

(***************************************************************************)
(* Declarative side                                                        *)
(***************************************************************************)
Acyclic(b) ==
    \* no node reaches itself through at least one base edge
    \A n \in AllNodes :
        LET RECURSIVE Up(_, _)
            Up(S, k) == IF k = 0 THEN S
                        ELSE Up(S \cup UNION {SeqSet(b[m]) : m \in S}, k - 1)
        IN n \notin Up(SeqSet(b[n]), N + 1)

\* s is a valid linearisation of n's ancestry under b.
ValidLin(b, n, s) ==
    /\ s # <<>>
    /\ s[1] = n
    /\ NoDup(s)
    /\ SeqSet(s) = ReachSet(b, n) \cup {Root}
    /\ s[Len(s)] = Root
    /\ \A i, j \in DOMAIN s :
          (\E k \in DOMAIN b[s[i]] : b[s[i]][k] = s[j]) => i < j

IsIf(x) == IF x = Root THEN TRUE ELSE IsIface[x]
Iro(s) == SelectSeq(s, LAMBDA x : IsIf(x))

\* first interface in the resolution order that defines "a"
ResolveIn(s) ==
    LET hits == {i \in DOMAIN s : s[i] \in defA /\ IsIface[s[i]]}
    IN IF hits = {} THEN NoOwner ELSE s[Min(hits)]

(***************************************************************************)
(* Mechanism side                                                          *)
(***************************************************************************)
RECURSIVE Flatten(_, _)
Flatten(b, n) ==
    \* ro._legacy_flatten : depth-first pre-order over __bases__
    LET RECURSIVE Cat(_)
        Cat(i) == IF i > Len(b[n]) THEN <<>>
                  ELSE Flatten(b, b[n][i]) \o Cat(i + 1)
    IN <<n>> \o Cat(1)

KeepLast(s) ==
    \* ro._legacy_mergeOrderings on one ordering: keep the last occurrence
    SelectSeq([i \in DOMAIN s |->
                  IF \E j \in DOMAIN s : j > i /\ s[j] = s[i] THEN -1 ELSE s[i]],
              LAMBDA x : x # -1)

Legacy(b, n) == KeepLast(Flatten(b, n))

ForceRootLast(s) ==
    IF s # <<>> /\ s[Len(s)] = Root THEN s ELSE Without(s, Root) \o <<Root>>

\* Specification._calculate_sro with S the map of CACHED resolution orders.
CalcSro(S, b, n) ==
    IF n = Root THEN <<Root>>
    ELSE LET m == MergeC3([i \in DOMAIN b[n] |-> S[b[n][i]]] \o <<b[n]>>)
         IN ForceRootLast(IF m = FAIL THEN Legacy(b, n) ELSE <<n>> \o m)

DepNodes(d, n) == [i \in DOMAIN d[n] |-> d[n][i].d]

\* Specification.changed: explicit-stack form of the recursion
\*   recompute n ; for dependent in tuple(dependents): dependent.changed()
\* st is [sro, memo]; every visited node loses its memo.
RECURSIVE Prop(_, _, _, _)
Prop(st, b, d, stack) ==
    IF stack = <<>> THEN st
    ELSE LET n == Head(stack)
             st1 == [sro  |-> [st.sro EXCEPT ![n] = CalcSro(st.sro, b, n)],
                     memo |-> [st.memo EXCEPT ![n] = NoOwner]]
         IN Prop(st1, b, d, DepNodes(d, n) \o Tail(stack))

Unsub(ds, x) ==
    \* Specification.unsubscribe: decrement, delete at zero
    LET i == Min({k \in DOMAIN ds : ds[k].d = x})
    IN IF ds[i].c = 1
          THEN SelectSeq(ds, LAMBDA r : r.d # x)
          ELSE [ds EXCEPT ![i] = [d |-> x, c |-> ds[i].c - 1]]

Sub(ds, x) ==
    \* Specification.subscribe: increment or append (dict insertion order)
    IF \E i \in DOMAIN ds : ds[i].d = x
       THEN [i \in DOMAIN ds |-> IF ds[i].d = x
                                    THEN [d |-> x, c |-> ds[i].c + 1]
                                    ELSE ds[i]]
       ELSE Append(ds, [d |-> x, c |-> 1])

RECURSIVE UnsubAll(_, _, _, _)
UnsubAll(d, old, n, i) ==
    IF i > Len(old) THEN d
    ELSE UnsubAll([d EXCEPT ![old[i]] = Unsub(d[old[i]], n)], old, n, i + 1)

RECURSIVE SubAll(_, _, _, _)
SubAll(d, new, n, i) ==
    IF i > Len(new) THEN d
    ELSE SubAll([d EXCEPT ![new[i]] = Sub(d[new[i]], n)], new, n, i + 1)

\* State of a freshly built graph of shape b: every node computed once, bases
\* first (what constructing the objects bottom-up does).
RECURSIVE FreshFrom(_, _, _)
FreshFrom(S, b, done) ==
    IF done = AllNodes THEN S
    ELSE LET n == CHOOSE x \in AllNodes \ done :
                      \A i \in DOMAIN b[x] : b[x][i] \in done
         IN FreshFrom([S EXCEPT ![n] = CalcSro(S, b, n)], b, done \cup {n})
FreshSro(b) == FreshFrom([n \in AllNodes |-> <<>>], b, {})

FreshDeps(b) ==
    \* any order; used only where no propagation follows
    LET RECURSIVE Go(_, _)
        Go(d, k) == IF k > N THEN d ELSE Go(SubAll(d, b[k], k, 1), k + 1)
    IN Go([n \in AllNodes |-> <<>>], 1)

(***************************************************************************)
(* ro.ro(strict=True) / ro.is_consistent : fresh resolvers, no cached sro  *)
(***************************************************************************)
RECURSIVE NonStrictMro(_, _)
NonStrictMro(b, n) ==
    LET m == MergeC3([i \in DOMAIN b[n] |-> NonStrictMro(b, b[n][i])]
                     \o <<b[n]>>)
    IN IF m = FAIL THEN Legacy(b, n) ELSE <<n>> \o m

DirectInc(b, n) ==
    MergeC3([i \in DOMAIN b[n] |-> NonStrictMro(b, b[n][i])] \o <<b[n]>>) = FAIL

RECURSIVE HadInc(_, _)
HadInc(b, n) == DirectInc(b, n) \/ \E i \in DOMAIN b[n] : HadInc(b, b[n][i])

IsConsistentImpl(b, n) ==
    IF PinnedC03
       THEN ~ \E i \in DOMAIN b[n] : HadInc(b, b[n][i])   \* leaf never merged
       ELSE ~ HadInc(b, n)

RECURSIVE StrictMro(_, _)
StrictMro(b, n) ==
    LET lins == [i \in DOMAIN b[n] |-> StrictMro(b, b[n][i])]
    IN IF \E i \in DOMAIN lins : lins[i] = FAIL THEN FAIL
       ELSE LET m == MergeC3(lins \o <<b[n]>>)
            IN IF m = FAIL THEN FAIL ELSE <<n>> \o m

StrictRaises(b, n) == StrictMro(b, n) = FAIL

(***************************************************************************)
(* Attribute accessors (C15)                                               *)
(***************************************************************************)
GetResult(n) == IF memo[n] # NoOwner THEN memo[n] ELSE ResolveIn(Iro(sro[n]))

\* InterfaceClass.namesAndDescriptions(all=True): owner of the description
\* reported for "a".
RECURSIVE NadOwnerBases(_, _)
NadOwnerBases(b, n) ==
    \* shipped: r = {}; for base in bases[::-1]: r.update(base.nAD(all));
    \*          r.update(own)   -- the FIRST base that has the name wins
    IF n \in defA THEN n
    ELSE LET have == {i \in DOMAIN b[n] : NadOwnerBases(b, b[n][i]) # NoOwner}
         IN IF have = {} THEN NoOwner ELSE NadOwnerBases(b, b[n][Min(have)])

NadOwner(n) == IF PinnedC15 THEN NadOwnerBases(bases, n)
               ELSE ResolveIn(Iro(sro[n]))

\* names(all=True) contains "a"
RECURSIVE NamesHasBases(_, _)
NamesHasBases(b, n) ==
    n \in defA \/ \E i \in DOMAIN b[n] : NamesHasBases(b, b[n][i])
NamesHasA(n) == IF PinnedC15 THEN NamesHasBases(bases, n)
                ELSE ResolveIn(Iro(sro[n])) # NoOwner

\* queryTaggedValue / getTaggedValueTags / validateInvariants walk __iro__
TagOwner(n) == ResolveIn(Iro(sro[n]))
InvariantOwners(n) ==
    LET s == Iro(sro[n]) IN SelectSeq(s, LAMBDA x : x \in defA)

(***************************************************************************)
(* Actions                                                                 *)
(***************************************************************************)
BasesOK(n, nb) ==
    /\ n \in Nodes
    /\ NoDup(nb)
    /\ n \notin SeqSet(nb)
    /\ IF RootExplicit THEN nb # <<>> ELSE Root \notin SeqSet(nb)
    /\ (IsIface[n] => \A i \in DOMAIN nb : IsIf(nb[i]))
    /\ Acyclic([bases EXCEPT ![n] = nb])

SetBases(n, nb) ==
    /\ BasesOK(n, nb)
    /\ LET b1 == [bases EXCEPT ![n] = nb]
           d1 == SubAll(UnsubAll(deps, bases[n], n, 1), nb, n, 1)
           st == Prop([sro |-> sro, memo |-> memo], b1, d1, <<n>>)
       IN /\ bases' = b1
          /\ deps' = d1
          /\ sro' = st.sro
          /\ memo' = st.memo
          /\ implied' = [m \in AllNodes |-> SeqSet(st.sro[m])]
          /\ UNCHANGED defA

Get(n) ==
    /\ n \in Nodes
    /\ memo' = [memo EXCEPT ![n] = GetResult(n)]
    /\ UNCHANGED <<bases, sro, implied, deps, defA>>

EmptyBases == [n \in AllNodes |-> IF RootExplicit /\ n # Root THEN <<Root>>
                                   ELSE <<>>]
InitEmpty ==
    /\ bases = EmptyBases
    /\ sro = [n \in AllNodes |-> IF n = Root THEN <<Root>> ELSE <<n, Root>>]
    /\ implied = [n \in AllNodes |-> {n, Root}]
    /\ deps = FreshDeps(EmptyBases)
    /\ memo = [n \in AllNodes |-> NoOwner]

InitFrom(b) ==
    /\ bases = b
    /\ sro = FreshSro(b)
    /\ implied = [n \in AllNodes |-> SeqSet(FreshSro(b)[n])]
    /\ deps = FreshDeps(b)
    /\ memo = [n \in AllNodes |-> NoOwner]

(***************************************************************************)
(* Properties                                                              *)
(***************************************************************************)
\* C02
ImpliedIsReach ==
    \A n \in AllNodes : implied[n] = ReachSet(bases, n) \cup {Root}
SroSetIsReach ==
    \A n \in AllNodes : SeqSet(sro[n]) = ReachSet(bases, n) \cup {Root}
DepsExact ==
    \A n \in AllNodes :
        /\ NoDup(DepNodes(deps, n))
        /\ \A m \in Nodes :
              LET cnt == Cardinality({i \in DOMAIN bases[m] : bases[m][i] = n})
                  ent == {i \in DOMAIN deps[n] : deps[n][i].d = m}
              IN IF cnt = 0 THEN ent = {}
                 ELSE \E i \in ent : deps[n][i].c = cnt
FreshEquiv ==
    /\ sro = FreshSro(bases)
    /\ implied = [n \in AllNodes |-> SeqSet(FreshSro(bases)[n])]

\* C03
SroValid == \A n \in AllNodes : ValidLin(bases, n, sro[n])
SroIsC3 ==
    \A n \in AllNodes : HierConsistent(bases, n) => sro[n] = C3(bases, n)
StrictIff ==
    \A n \in Nodes :
        /\ StrictRaises(bases, n) = ~HierConsistent(bases, n)
        /\ IsConsistentImpl(bases, n) = HierConsistent(bases, n)

\* C15
MemoSound ==
    \A n \in AllNodes : memo[n] # NoOwner => memo[n] = ResolveIn(Iro(sro[n]))
AccessorsAgree ==
    \A n \in Nodes : IsIface[n] =>
        /\ NadOwner(n) = GetResult(n)
        /\ NamesHasA(n) = (GetResult(n) # NoOwner)
        /\ TagOwner(n) = ResolveIn(Iro(sro[n]))

TypeOK ==
    /\ \A n \in AllNodes : SeqSet(bases[n]) \subseteq AllNodes
    /\ bases[Root] = <<>>
    /\ sro[Root] = <<Root>>
=============================================================================
