------------------------------ MODULE MC_Adapt ------------------------------
(* Model-checking instance of Adapt: every input of the universe is walked *)
(* through the step machine; every terminal state is dumped as one         *)
(* implementation test (input, expected outcome, expected call log,        *)
(* expected registry.queryAdapter answers).                                *)
EXTENDS Adapt, Json, TLC

(* the size of the universe, so that the harness can tell that the dump is  *)
(* complete (one terminal state per input)                                 *)
ASSUME PrintT(ToJson([ninputs |-> Cardinality(Inputs)]))

Case == [in    |-> in,
         out   |-> outcome,
         log   |-> log,
         query |-> IF in.reg THEN [i \in 1..Len(in.hooks) |-> Query(in, i)]
                   ELSE <<>>,
         nt    |-> Expected(in).nt]

Dump == pc # "Done" \/ PrintT(ToJson(Case))
=============================================================================
