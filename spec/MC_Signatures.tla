--------------------------- MODULE MC_Signatures ---------------------------
(* Model-checking instance of Signatures: every state is one test case;    *)
(* Dump prints the inputs of the case together with what the DECLARATIVE   *)
(* layer expects the implementation to show (the mechanism layer equals it *)
(* by the invariants, which TLC checks on the same states).                *)
EXTENDS Signatures, Json

AllStatuses == AllMStatuses
CoreStatuses == {"missing", "noncallable", "opaque", "good", "bad"}

C18Obs ==
    LET s == case.sig
        t == Truth(s)
    IN  [mode   |-> "c18", sig |-> s, ctx |-> case.ctx, nt |-> case.nt,
         params |-> Params(s),
         layout |-> Layout(s),
         code   |-> [argcount |-> Code(s, case.nt).argcount,
                     kwonly   |-> Code(s, case.nt).kwonly,
                     defaults |-> Code(s, case.nt).defaults],
         expect |-> t,
         sigstr |-> SigString(t),
         tags   |-> TagSet(case.nt)]

ShapeList(isig, msig) ==
    {[npos |-> sh.npos, nkw |-> sh.nkw, binds |-> Binds(sh, msig)] :
        sh \in Admits(isig)}

PairObs ==
    LET i == ToSig(case.isig, FALSE)
        m == ImplSig(case.msig, case.kind)
    IN  [mode    |-> "pairs", isig |-> case.isig, msig |-> case.msig,
         kind    |-> case.kind, tent |-> case.tent,
         iparams |-> Params(i), mparams |-> Params(m),
         shapes  |-> ShapeList(i, m),
         why     |-> Incompat(IfaceInfo(case.isig),
                              ImplInfo(case.msig, case.kind)),
         expect  |-> PairContract(case)]

AggObs ==
    [mode     |-> "agg", declared |-> case.declared, tent |-> case.tent,
     vtype    |-> case.vtype,
     attrs    |-> [a \in 1..NAttr |->
                     [name |-> AttrTable[a].name,
                      inbase |-> AttrTable[a].inbase,
                      st |-> case.attrs[a]]],
     meths    |-> [m \in 1..NMeth |->
                     [name |-> MethTable[m].name,
                      inbase |-> MethTable[m].inbase,
                      st |-> case.meths[m],
                      iparams |-> Params(ToSig(MethTable[m].isig, FALSE)),
                      mparams |-> IF case.meths[m] \in {"good", "bad"}
                                  THEN Params(ImplSig(MSigOf(m, case.meths[m]),
                                                      AggKind(case.vtype)))
                                  ELSE <<>>,
                      shapes |-> IF case.meths[m] \in {"good", "bad"}
                                 THEN ShapeList(ToSig(MethTable[m].isig, FALSE),
                                                ImplSig(MSigOf(m, case.meths[m]),
                                                        AggKind(case.vtype)))
                                 ELSE {}]],
     expect   |-> Contract(case)]

Obs == CASE Mode = "c18"   -> C18Obs
         [] Mode = "pairs" -> PairObs
         [] Mode = "agg"   -> AggObs

Dump == PrintT(ToJson(Obs))
=============================================================================
