----------------------------- MODULE LookupMem -----------------------------
(***************************************************************************)
(* Memory / ownership / interleaving model of a registry lookup            *)
(* (LookupBase and VerifyingBase, C and Python) against mutation of the    *)
(* same registry by other threads or by code the lookup itself calls.      *)
(*                                                                         *)
(* Under the GIL other Python code can run during a lookup only at the     *)
(* CALL-OUTS from the lookup code into Python; a frame is therefore        *)
(* modelled as a sequence of atomic segments separated by call-outs:       *)
(*   G  providedBy(object)           (adapter_hook / queryAdapter only)    *)
(*   A  tuple(required)              (lazy `required`)                     *)
(*   E  reading base._generation     (verifying registries: _verify)       *)
(*   B  hash/eq of the key           (PyDict_GetItem on the cache)         *)
(*   C1 C2 C3  self._uncached_*()    (read data / subscribe / return;      *)
(*                                    three segments: the Python code may  *)
(*                                    be preempted between bytecodes)      *)
(*   D  hash/eq of the key, destructor of a replaced value (SetItem)       *)
(*   F  factory(object)              (adapter_hook only)                   *)
(* At a call-out the frame's plan says what the called code does:          *)
(* nothing, mutate the registry (data write + changed()), raise, run a     *)
(* nested lookup of the same key, or nested lookup + mutate.               *)
(*                                                                         *)
(* Heap: cache dictionaries are cells with an allocation flag and a set of *)
(* owners (RootOwner = the lookup object's field, or a frame).  changed()     *)
(* drops the root's reference.  Impl fixes whether a frame OWNS or merely  *)
(* BORROWS the cell it works on:                                           *)
(*   "py"       local variable: owned                                      *)
(*   "c_owned"  C code holding a strong reference (current tree)           *)
(*   "c_pinned" C code using the borrowed pointer (the pinned commit)      *)
(***************************************************************************)
EXTENDS Integers, Sequences, FiniteSets, TLC

CONSTANTS Impl,        \* "py" | "c_owned" | "c_pinned"
          Threads,     \* lookup thread ids (subset of Nat)
          Mutator,     \* BOOLEAN: a separate mutating thread exists
          MaxVer,      \* bound on data versions
          MaxCells,    \* bound on cache cells ever allocated
          Entries,     \* subset of {"lookup", "lookup1", "hook", "all"}
          Verifying,   \* BOOLEAN: the lookup object is a VerifyingBase
          Plans,       \* set of plans [CallOuts -> ForeignActs]
          MaxCalls,    \* lookups per thread
          MaxFrames,   \* bound on frames ever created
          StartStale,  \* TRUE: a mutation of the base registry completed before
                       \* the first call (the verifying lookup starts with
                       \* generations that have moved)
          VerifyOrder  \* how a verifying lookup's changed() is sequenced:
                       \* "clear_first": drop the caches, THEN read the
                       \*   bases' generations and record them (the pin);
                       \* "snapshot_first": read the generations, then drop
                       \*   the caches and record them in one piece (shipped)

\* C3: code the Python _uncached_* runs AFTER it has read the data and before
\* it returns (e.g. spec.subscribe() of a required specification, called by
\* _subscribe): the window between computing an answer and storing it
\* E2: reading the bases' generations AGAIN inside changed(), after _verify
\* found them moved (base._generation may be a property, and in the Python
\* implementation any other thread may run there)
CallOuts == {"G", "A", "E", "E2", "B", "C1", "C3", "D", "F"}
ForeignActs == {"none", "mutate", "raise", "nested", "nested_mutate",
                "mutate_nested"}

VARIABLES ver,      \* current data version of the registry
          chg,      \* version for which changed() last completed
          cur,      \* cell of the current inner cache dict (0 = none)
          vcur,     \* cell of the current _verify_ro tuple (0 = none)
          vgen,     \* data version recorded in _verify_generations
          ncell,    \* next cell id
          alive,    \* [1..MaxCells -> BOOLEAN]
          owners,   \* [1..MaxCells -> SUBSET Owner]
          content,  \* [1..MaxCells -> 0..MaxVer] cached answer (0 = none)
          stack,    \* [Threads -> Seq(frame)]  call stacks (top = last)
          done,     \* [Threads -> Seq(record)] completed top-level calls
          mpc,      \* mutator thread: "idle" | "written"
          uaf,      \* a dead cell was read or written
          fid       \* next frame id

vars == <<ver, chg, cur, vcur, vgen, ncell, alive, owners, content, stack,
          done, mpc, uaf, fid>>

RootOwner == 0     \* the lookup object itself (frame ids are >= 1)
Cells == 1..MaxCells
Owns == Impl # "c_pinned"

\* order of call-outs per entry point.  A verifying lookup runs _verify (E)
\* first; only the Python adapter_hook calls providedBy (G) before it.
PcSeq(entry) ==
    LET g == IF entry = "hook" THEN <<"G">> ELSE <<>>
        a == IF entry \in {"lookup", "all"} THEN <<"A">> ELSE <<>>
        e == IF Verifying THEN <<"E", "E2">> ELSE <<>>
    IN (IF Impl = "py" /\ entry = "hook" THEN g \o e ELSE e \o g \o a) \o
       <<"B", "C1", "C2", "C3", "D">> \o
       (IF entry = "hook" THEN <<"F">> ELSE <<>>)

NextPc(entry, pc) ==
    LET s == PcSeq(entry)
        i == CHOOSE k \in DOMAIN s : s[k] = pc
    IN IF i = Len(s) THEN "ret" ELSE s[i + 1]

NewFrame(id, entry, plan, top) ==
    [id |-> id, entry |-> entry, plan |-> plan, plan0 |-> plan,
     pc |-> PcSeq(entry)[1],
     cell |-> 0, vcell |-> 0, rd |-> 0, res |-> 0, exc |-> FALSE,
     inv |-> chg, top |-> top, hit |-> FALSE, stale |-> FALSE]

(***************************************************************************)
(* Heap operations (on explicit copies so that one step can compose them)  *)
(***************************************************************************)
Release(al, ow, c, who) ==
    \* returns <<alive', owners'>> after `who` drops its reference to c
    IF c = 0 \/ who \notin ow[c] THEN <<al, ow>>
    ELSE LET o2 == [ow EXCEPT ![c] = @ \ {who}]
         IN <<[al EXCEPT ![c] = (o2[c] # {})], o2>>

\* changed() of the LOOKUP OBJECT: drops the caches and, for a verifying
\* lookup, takes a new _verify_ro / _verify_generations snapshot.
\* h = [ver, chg, cur, vcur, vgen, ncell, alive, owners, content]
DoLookupChanged(h) ==
    LET r1 == Release(h.alive, h.owners, h.cur, RootOwner)
        r2 == IF Verifying THEN Release(r1[1], r1[2], h.vcur, RootOwner) ELSE r1
        nv == h.ncell
    IN IF Verifying
          THEN [h EXCEPT !.cur = 0,
                         !.alive = [r2[1] EXCEPT ![nv] = TRUE],
                         !.owners = [r2[2] EXCEPT ![nv] = {RootOwner}],
                         !.vcur = nv, !.vgen = h.chg, !.ncell = nv + 1]
          ELSE [h EXCEPT !.cur = 0, !.alive = r2[1], !.owners = r2[2]]

\* the two halves of a verifying lookup's changed()
ClearCaches(h) ==
    LET r1 == Release(h.alive, h.owners, h.cur, RootOwner)
    IN [h EXCEPT !.cur = 0, !.alive = r1[1], !.owners = r1[2]]
Snapshot(h) ==
    LET r2 == Release(h.alive, h.owners, h.vcur, RootOwner)
        nv == h.ncell
    IN [h EXCEPT !.alive = [r2[1] EXCEPT ![nv] = TRUE],
                 !.owners = [r2[2] EXCEPT ![nv] = {RootOwner}],
                 !.vcur = nv, !.vgen = h.chg, !.ncell = nv + 1]

\* changed() of the REGISTRY that was mutated, the last step of every
\* mutator.  Non-verifying: the registry is the lookup's own (or pushes the
\* notification down): its generation moves and the lookup object's
\* changed() runs.  Verifying: the mutated registry is a BASE; only its
\* generation moves, the lookup finds out at its next _verify.
DoChanged(h) ==
    IF Verifying THEN [h EXCEPT !.chg = h.ver]
    ELSE DoLookupChanged([h EXCEPT !.chg = h.ver])

\* a mutator: write the data, then changed() as its LAST step
DoWrite(h) == [h EXCEPT !.ver = h.ver + 1]
DoMutate(h) == DoChanged(DoWrite(h))

Heap == [ver |-> ver, chg |-> chg, cur |-> cur, vcur |-> vcur,
         vgen |-> vgen, ncell |-> ncell, alive |-> alive,
         owners |-> owners, content |-> content]

SetHeap(h) ==
    /\ ver' = h.ver /\ chg' = h.chg /\ cur' = h.cur /\ vcur' = h.vcur
    /\ vgen' = h.vgen /\ ncell' = h.ncell /\ alive' = h.alive
    /\ owners' = h.owners /\ content' = h.content

CanMutate(h) == h.ver < MaxVer

(***************************************************************************)
(* One atomic segment of the top frame of thread t: the foreign code of    *)
(* the call-out the frame is at, then the lookup code up to the next       *)
(* call-out.                                                               *)
(***************************************************************************)
Top(t) == stack[t][Len(stack[t])]
ReplaceTop(s, f) == [s EXCEPT ![Len(s)] = f]
Pop(s) == SubSeq(s, 1, Len(s) - 1)

ReleaseFrame(h, f) ==
    \* a frame that owns references gives them back when it exits
    LET r1 == IF Owns THEN Release(h.alive, h.owners, f.cell, f.id)
              ELSE <<h.alive, h.owners>>
        r2 == IF Owns THEN Release(r1[1], r1[2], f.vcell, f.id) ELSE r1
    IN [h EXCEPT !.alive = r2[1], !.owners = r2[2]]

\* the lookup code after call-out pc has returned normally, up to the next
\* call-out.  Returns [h, f, uaf].
Segment(h0, f0) ==
    LET pc == f0.pc IN
    CASE pc = "G" -> [h |-> h0, f |-> f0, uaf |-> FALSE]
      [] pc = "A" -> [h |-> h0, f |-> f0, uaf |-> FALSE]
      [] pc = "E" ->
           \* back from reading the generations: the frame continues to use
           \* the _verify_ro it started with, then compares.  If they moved,
           \* changed() starts: with "clear_first" the caches go now
           LET bad == f0.vcell # 0 /\ ~h0.alive[f0.vcell]
               stale == h0.vgen # h0.chg \/ h0.vcur = 0
               h1 == IF stale /\ VerifyOrder = "clear_first"
                        THEN ClearCaches(h0) ELSE h0
           IN [h |-> h1, f |-> [f0 EXCEPT !.stale = stale], uaf |-> bad]
      [] pc = "E2" ->
           \* changed() has read the generations (whatever ran during that
           \* read has run): record them; with "snapshot_first" the caches
           \* are dropped in the same piece
           LET h1 == IF VerifyOrder = "clear_first" THEN h0
                     ELSE ClearCaches(h0)
           IN [h |-> Snapshot(h1), f |-> f0, uaf |-> FALSE]
      [] pc = "B" ->
           \* PyDict_GetItem finished: was the key in the cache?
           LET bad == ~h0.alive[f0.cell]
               val == IF bad THEN 0 ELSE h0.content[f0.cell]
           IN [h |-> h0,
               f |-> [f0 EXCEPT !.hit = (val # 0), !.res = val],
               uaf |-> bad]
      [] pc = "C1" -> [h |-> h0, f |-> [f0 EXCEPT !.rd = h0.ver],
                       uaf |-> FALSE]
      [] pc = "C2" -> [h |-> h0, f |-> f0, uaf |-> FALSE]
      [] pc = "C3" -> [h |-> h0, f |-> [f0 EXCEPT !.res = f0.rd],
                       uaf |-> FALSE]
      [] pc = "D" ->
           \* PyDict_SetItem finished: the result is in the dict the frame
           \* fetched at the start
           LET bad == ~h0.alive[f0.cell]
           IN [h |-> IF bad THEN h0
                     ELSE [h0 EXCEPT !.content[f0.cell] = f0.res],
               f |-> f0, uaf |-> bad]
      [] pc = "F" -> [h |-> h0, f |-> f0, uaf |-> FALSE]

\* code that runs BEFORE call-out pc is made (fetching what it works on)
Prepare(h0, f0) ==
    LET pc == f0.pc IN
    CASE pc = "E" ->
           \* _verify: take self._verify_ro
           IF h0.vcur = 0 THEN [h |-> h0, f |-> f0]
           ELSE [h |-> IF Owns
                       THEN [h0 EXCEPT !.owners[h0.vcur] = @ \cup {f0.id}]
                       ELSE h0,
                 f |-> [f0 EXCEPT !.vcell = h0.vcur]]
      [] pc = "B" ->
           \* _getcache: the current inner dict, created on demand
           LET c == IF h0.cur # 0 THEN h0.cur ELSE h0.ncell
               h1 == IF h0.cur # 0 THEN h0
                     ELSE [h0 EXCEPT !.cur = c, !.ncell = c + 1,
                                     !.alive[c] = TRUE,
                                     !.owners[c] = {RootOwner},
                                     !.content[c] = 0]
               h2 == IF Owns THEN [h1 EXCEPT !.owners[c] = @ \cup {f0.id}]
                     ELSE h1
           IN [h |-> h2, f |-> [f0 EXCEPT !.cell = c]]
      [] OTHER -> [h |-> h0, f |-> f0]

NeedsCell(pc) == pc = "B"

\* Finish a frame: release, pop, record (top-level) or hand back (nested)
Finish(t, h, f) ==
    LET h1 == ReleaseFrame(h, f)
        s1 == Pop(stack[t])
    IN /\ SetHeap(h1)
       /\ stack' = [stack EXCEPT ![t] = s1]
       /\ done' = IF f.top
                     THEN [done EXCEPT ![t] = Append(@,
                              [ans |-> f.res, exc |-> f.exc, inv |-> f.inv,
                               ret |-> h1.ver, entry |-> f.entry,
                               plan |-> f.plan0])]
                     ELSE done

Step(t) ==
    /\ stack[t] # <<>>
    /\ LET f0 == Top(t)
           pc == f0.pc
           act == IF pc \in CallOuts THEN f0.plan[pc] ELSE "none"
       IN \/ \* ---- the called code raises: the frame unwinds
             /\ act = "raise"
             /\ Finish(t, Heap, [f0 EXCEPT !.exc = TRUE, !.res = 0])
             /\ UNCHANGED <<mpc, uaf, fid>>
          \/ \* ---- the called code runs a nested lookup first
             /\ act \in {"nested", "nested_mutate", "mutate_nested"}
             /\ fid <= MaxFrames
             /\ (act = "mutate_nested" => CanMutate(Heap))
             /\ LET h1 == IF act = "mutate_nested" THEN DoMutate(Heap)
                          ELSE Heap
                    nf == NewFrame(fid, "lookup",
                                   [c \in CallOuts |-> "none"], FALSE)
                    nf1 == [nf EXCEPT !.inv = h1.chg]
                    pr == Prepare(h1, nf1)
                IN /\ SetHeap(pr.h)
                   /\ stack' = [stack EXCEPT ![t] =
                        Append(ReplaceTop(@, [f0 EXCEPT !.plan[pc] =
                                  IF act = "nested_mutate" THEN "mutate"
                                  ELSE "none"]), pr.f)]
             /\ fid' = fid + 1
             /\ UNCHANGED <<done, mpc, uaf>>
          \/ \* ---- nothing / mutate, then the lookup code continues
             /\ act \in {"none", "mutate"}
             /\ (act = "mutate" => CanMutate(Heap))
             /\ LET h1 == IF act = "mutate" THEN DoMutate(Heap) ELSE Heap
                    sg == Segment(h1, f0)
                    f1 == sg.f
                    npc == IF pc = "B" /\ f1.hit
                              THEN (IF f1.entry = "hook" THEN "F" ELSE "ret")
                              ELSE IF pc = "E" /\ ~f1.stale
                              THEN NextPc(f1.entry, "E2")
                              ELSE NextPc(f1.entry, pc)
                    f2 == [f1 EXCEPT !.pc = npc]
                    pr == IF npc = "ret" THEN [h |-> sg.h, f |-> f2]
                          ELSE Prepare(sg.h, f2)
                IN /\ (NeedsCell(npc) /\ sg.h.cur = 0
                          => sg.h.ncell <= MaxCells)
                   /\ uaf' = (uaf \/ sg.uaf)
                   /\ IF npc = "ret"
                         THEN Finish(t, pr.h, pr.f)
                         ELSE /\ SetHeap(pr.h)
                              /\ stack' = [stack EXCEPT ![t] =
                                              ReplaceTop(@, pr.f)]
                              /\ UNCHANGED done
                   /\ UNCHANGED <<mpc, fid>>

\* a thread starts a (top-level) lookup
Call(t, entry, plan) ==
    /\ stack[t] = <<>>
    /\ Len(done[t]) < MaxCalls
    /\ fid <= MaxFrames
    /\ LET f == NewFrame(fid, entry, plan, TRUE)
           pr == Prepare(Heap, f)
       IN /\ (NeedsCell(f.pc) /\ cur = 0 => ncell <= MaxCells)
          /\ SetHeap(pr.h)
          /\ stack' = [stack EXCEPT ![t] = <<pr.f>>]
    /\ fid' = fid + 1
    /\ UNCHANGED <<done, mpc, uaf>>

\* the mutator thread: data write, then (separately) changed()
MWrite ==
    /\ Mutator /\ mpc = "idle" /\ CanMutate(Heap)
    /\ SetHeap(DoWrite(Heap))
    /\ mpc' = "written"
    /\ UNCHANGED <<stack, done, uaf, fid>>
MChanged ==
    /\ Mutator /\ mpc = "written"
    /\ (~Verifying \/ TRUE)
    /\ SetHeap(DoChanged(Heap))
    /\ mpc' = "idle"
    /\ UNCHANGED <<stack, done, uaf, fid>>

Init ==
    /\ ver = (IF StartStale /\ Verifying THEN 2 ELSE 1)
    /\ chg = (IF StartStale /\ Verifying THEN 2 ELSE 1)
    /\ cur = 0
    /\ vcur = IF Verifying THEN 1 ELSE 0
    /\ vgen = 1
    /\ ncell = IF Verifying THEN 2 ELSE 1
    /\ alive = [c \in Cells |-> Verifying /\ c = 1]
    /\ owners = [c \in Cells |-> IF Verifying /\ c = 1 THEN {RootOwner} ELSE {}]
    /\ content = [c \in Cells |-> 0]
    /\ stack = [t \in Threads |-> <<>>]
    /\ done = [t \in Threads |-> <<>>]
    /\ mpc = "idle"
    /\ uaf = FALSE
    /\ fid = 1

Next ==
    \/ \E t \in Threads : Step(t)
    \/ \E t \in Threads, e \in Entries, p \in Plans : Call(t, e, p)
    \/ MWrite
    \/ MChanged

(***************************************************************************)
(* Properties (C11)                                                        *)
(***************************************************************************)
NoUseAfterFree == ~uaf

Quiescent == \A t \in Threads : stack[t] = <<>>
RefcountBalanced ==
    Quiescent =>
        \A c \in Cells :
            IF alive[c] THEN owners[c] = {RootOwner} /\ (c = cur \/ c = vcur)
            ELSE owners[c] = {}

\* nothing computed from data older than the last completed changed() is
\* reachable from the lookup object
\* (a verifying lookup only finds out at its next _verify, which every
\* access starts with: the claim is about a snapshot that is up to date)
NoStaleSurvives ==
    (cur # 0 /\ (Verifying => vgen = chg)) =>
        (content[cur] = 0 \/ content[cur] >= chg)

\* a completed call returned the answer of some data version between the
\* last mutation completed before it started and the last one begun before
\* it returned
AnswerLinearizable ==
    \A t \in Threads : \A i \in DOMAIN done[t] :
        LET d == done[t][i]
        IN ~d.exc => (d.inv <= d.ans /\ d.ans <= d.ret)

\* exceptions only come from code that raised
OnlyPlannedExceptions ==
    \A t \in Threads : \A i \in DOMAIN done[t] : done[t][i].exc => Plans # {}

TypeOK ==
    /\ cur \in 0..MaxCells /\ vcur \in 0..MaxCells

CellBound == ncell <= MaxCells
=============================================================================
