---------------------------- MODULE TraceRegistry ----------------------------
(***************************************************************************)
(* Code -> spec conformance for adapter registries (C04 - C09): validates  *)
(* traces RECORDED from the real code - the repository's own doctests      *)
(* (docs/adapter.rst) run with a recorder wrapped around the registry API, *)
(* and seeded random drivers over universes larger than TLC generates      *)
(* from - against the declarative side of Registry.tla.                    *)
(*                                                                         *)
(* A trace is a sequence of events, one per public call, logged at the     *)
(* call's return (sequential library: that is the linearisation point):    *)
(*   register / unregister / subscribe / unsubscribe / setBases / rebuild  *)
(*   lookup (any entry point, normalised to required specifications),      *)
(*   lookupAll, subscriptions, registered                                  *)
(* The world is not fixed in advance: every query event carries, as the    *)
(* real objects report them at that moment, the resolution order of each   *)
(* looked-up specification (sro), the is-or-extends pairs among the        *)
(* specifications occurring in those orders (sext) and among the provided  *)
(* interfaces seen so far (pext).  C02/C03 bind those to the graph.  The   *)
(* state the specification carries is what the registry API defines: live  *)
(* registrations, live subscriptions, registry bases.                      *)
(*                                                                         *)
(* A divergence does not block: it is recorded in `mismatch`;              *)
(* INVARIANT NoMismatch names the failing event, the admissible set and    *)
(* the observed answer.  Acceptance: every trace is consumed to its end    *)
(* (the harness compares the number of distinct states with the number of  *)
(* events).                                                                *)
(***************************************************************************)
EXTENDS C3Ops, TLC, Json, IOUtils

Traces == ndJsonDeserialize(IOEnv.TRACE_FILE)   \* one trace per line

VARIABLES tid,       \* which trace
          l,         \* next event (1-based)
          regs,      \* set of [g, req, prov, name, val]
          subs,      \* set of [g, req, prov, vals]   (vals: sequence)
          rbases,    \* [registry id -> sequence of registry ids]
          mismatch

vars == <<tid, l, regs, subs, rbases, mismatch>>

NONE == -1
T == Traces[tid]
Ev == T.ev[l]
Pairs(s) == {<<s[i][1], s[i][2]>> : i \in DOMAIN s}

Ro(g) == C3Raw(rbases, g)

(***************************************************************************)
(* Declarative side: Registry.tla's Applicable / Rank / Admissible /       *)
(* SubsAdmSet, with the orders and extension relations of the event        *)
(***************************************************************************)
PExt(e, x, y) == x = y \/ <<x, y>> \in Pairs(e.pext)      \* x isOrExtends y
SExt(e, x, y) == x = y \/ <<x, y>> \in Pairs(e.sext)

ReqApplies(e, ereq) ==
    /\ Len(ereq) = Len(e.req)
    /\ \A i \in DOMAIN ereq : ereq[i] \in SeqSet(e.sro[i])

Applicable(e, name) ==
    {x \in regs : /\ x.g \in SeqSet(Ro(e.g))
                  /\ x.name = name
                  /\ ReqApplies(e, x.req)
                  /\ PExt(e, x.prov, e.prov)}

Rank(e, x) ==
    <<IndexOf(Ro(e.g), x.g)>> \o
    [i \in DOMAIN x.req |-> IndexOf(e.sro[i], x.req[i])]

Admissible(e, name) ==
    LET app == Applicable(e, name)
        best == {x \in app : \A y \in app : ~LexLess(Rank(e, y), Rank(e, x))}
        undom == {x \in best : ~\E y \in best :
                     y.prov # x.prov /\ PExt(e, x.prov, y.prov)}
    IN IF app = {} THEN {NONE} ELSE {x.val : x \in undom}

AllNames(e) ==
    {x.name : x \in {y \in regs : /\ y.g \in SeqSet(Ro(e.g))
                                  /\ ReqApplies(e, y.req)
                                  /\ PExt(e, y.prov, e.prov)}}

SubApplicable(e) ==
    {x \in subs : /\ x.g \in SeqSet(Ro(e.g))
                  /\ ReqApplies(e, x.req)
                  /\ IF e.prov = NONE THEN x.prov = NONE
                     ELSE x.prov # NONE /\ PExt(e, x.prov, e.prov)}

\* x must come before y in any admissible subscriptions() result: base
\* registries first; within a registry, a pointwise more general key first
SubBefore(e, x, y) ==
    \/ IndexOf(Ro(e.g), x.g) > IndexOf(Ro(e.g), y.g)
    \/ /\ x.g = y.g /\ x.req # y.req
       /\ \A i \in DOMAIN x.req : SExt(e, y.req[i], x.req[i])

RECURSIVE LinExt(_, _)
LinExt(e, S) ==
    IF S = {} THEN {<<>>}
    ELSE UNION {{<<x>> \o t : t \in LinExt(e, S \ {x})} :
                x \in {x \in S : ~\E y \in S : y # x /\ SubBefore(e, y, x)}}

SubsAdmSet(e) ==
    {Concat([k \in DOMAIN order |-> order[k].vals]) :
        order \in LinExt(e, SubApplicable(e))}

(***************************************************************************)
(* Events                                                                  *)
(***************************************************************************)
Find(g, req, prov, name) ==
    {x \in regs : x.g = g /\ x.req = req /\ x.prov = prov /\ x.name = name}
SFind(g, req, prov) ==
    {x \in subs : x.g = g /\ x.req = req /\ x.prov = prov}

\* a query on a registry whose chain has no C3 order is not judged (the
\* property speaks of the C3 order; the drivers do not build such chains)
Judged == ~("g" \in DOMAIN Ev) \/ Ro(Ev.g) # FAIL

Step(rg, sb, rb, mm) ==
    /\ regs' = rg /\ subs' = sb /\ rbases' = rb
    /\ mismatch' = IF mismatch # <<>> \/ ~Judged THEN mismatch ELSE mm
    /\ l' = l + 1 /\ UNCHANGED tid

Bad(what, expected, got) ==
    <<"trace", tid, "event", l, what, "admissible", expected, "observed", got>>

\* register(required, provided, name, value); value NONE unregisters
DoRegister(e) ==
    LET old == Find(e.g, e.req, e.prov, e.name)
        new == IF e.val = NONE THEN {}
               ELSE {[g |-> e.g, req |-> e.req, prov |-> e.prov,
                      name |-> e.name, val |-> e.val]}
    IN Step((regs \ old) \cup new, subs, rbases, <<>>)

\* unregister(required, provided, name[, value]): only the identical value
DoUnregister(e) ==
    LET old == Find(e.g, e.req, e.prov, e.name)
        hit == e.val = NONE \/ \E x \in old : x.val = e.val
    IN Step(IF hit THEN regs \ old ELSE regs, subs, rbases, <<>>)

DoSubscribe(e) ==
    LET old == SFind(e.g, e.req, e.prov)
        ov == IF old = {} THEN <<>> ELSE (CHOOSE x \in old : TRUE).vals
    IN Step(regs, (subs \ old) \cup
                  {[g |-> e.g, req |-> e.req, prov |-> e.prov,
                    vals |-> Append(ov, e.val)]}, rbases, <<>>)

\* unsubscribe(required, provided[, value]): all EQUAL values (e.eq lists the
\* value ids that compare equal to the given one), or all values
DoUnsubscribe(e) ==
    LET old == SFind(e.g, e.req, e.prov)
        ov == IF old = {} THEN <<>> ELSE (CHOOSE x \in old : TRUE).vals
        nv == IF e.val = NONE THEN <<>>
              ELSE SelectSeq(ov, LAMBDA w : w \notin SeqSet(e.eq))
    IN Step(regs, IF nv = <<>> THEN subs \ old
                  ELSE (subs \ old) \cup
                       {[g |-> e.g, req |-> e.req, prov |-> e.prov,
                         vals |-> nv]}, rbases, <<>>)

DoSetBases(e) == Step(regs, subs, [rbases EXCEPT ![e.g] = e.bases], <<>>)
DoRebuild(e) == Step(regs, subs, rbases, <<>>)

\* lookup / lookup1 / adapter_hook / queryAdapter / queryMultiAdapter: the
\* recorder logs the value FOUND (the factory), NONE for the default
DoLookup(e) ==
    LET adm == Admissible(e, e.name)
    IN Step(regs, subs, rbases,
            IF e.res \in adm THEN <<>> ELSE Bad(e.via, adm, e.res))

DoLookupAll(e) ==
    LET names == AllNames(e)
        got == {e.res[i][1] : i \in DOMAIN e.res}
        ok == /\ got = names
              /\ \A i \in DOMAIN e.res :
                    e.res[i][2] \in Admissible(e, e.res[i][1])
    IN Step(regs, subs, rbases,
            IF ok THEN <<>> ELSE Bad("lookupAll", names, e.res))

DoSubscriptions(e) ==
    LET adm == SubsAdmSet(e)
    IN Step(regs, subs, rbases,
            IF e.res \in adm THEN <<>> ELSE Bad("subscriptions", adm, e.res))

DoRegistered(e) ==
    LET hit == Find(e.g, e.req, e.prov, e.name)
        exp == IF hit = {} THEN NONE ELSE (CHOOSE x \in hit : TRUE).val
    IN Step(regs, subs, rbases,
            IF e.res = exp THEN <<>> ELSE Bad("registered", {exp}, e.res))

Init == /\ tid \in DOMAIN Traces
        /\ l = 1
        /\ regs = {} /\ subs = {}
        /\ rbases = [g \in {T.regs[i] : i \in DOMAIN T.regs} |-> <<>>]
        /\ mismatch = <<>>

Next ==
    /\ l <= Len(T.ev)
    /\ CASE Ev.op = "register" -> DoRegister(Ev)
         [] Ev.op = "unregister" -> DoUnregister(Ev)
         [] Ev.op = "subscribe" -> DoSubscribe(Ev)
         [] Ev.op = "unsubscribe" -> DoUnsubscribe(Ev)
         [] Ev.op = "setBases" -> DoSetBases(Ev)
         [] Ev.op = "rebuild" -> DoRebuild(Ev)
         [] Ev.op = "lookup" -> DoLookup(Ev)
         [] Ev.op = "lookupAll" -> DoLookupAll(Ev)
         [] Ev.op = "subscriptions" -> DoSubscriptions(Ev)
         [] Ev.op = "registered" -> DoRegistered(Ev)
         \* the drivers only make valid calls: an exception is a divergence
         [] Ev.op = "exception" ->
               Step(regs, subs, rbases, Bad("exception", {}, Ev.what))

NoMismatch == mismatch = <<>>
=============================================================================
