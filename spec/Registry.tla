------------------------------ MODULE Registry ------------------------------
(***************************************************************************)
(* Adapter registries of zope.interface (adapter.py, LookupBase /           *)
(* VerifyingBase in C and Python): storage of registrations and            *)
(* subscriptions, provided-interface reference counts and extendor lists,  *)
(* registry chains with their CACHED resolution order, the three lookup    *)
(* caches, the set of watched required specifications, push invalidation   *)
(* (AdapterRegistry) and generation checking (VerifyingAdapterRegistry).   *)
(*                                                                         *)
(* Mechanism side: Leaves / UncachedLookup / UncachedLookupAll /           *)
(*   UncachedSubs (the nested walks of _lookup/_lookupAll/_subscriptions), *)
(*   AddExt / RemExt, the invalidation protocol in Touch.                  *)
(* Declarative side: Applicable, Rank, Admissible, SubsMultiset,           *)
(*   SubsOrderOK, Net* bookkeeping.                                        *)
(* Properties: C04 WalkIsBest, C05 CacheTransparent, C06 RoIsFresh,        *)
(*   C07 SubsExact, C08 EntryPointsAgree, C09 BookkeepingExact.            *)
(***************************************************************************)
EXTENDS C3Ops, TLC

CONSTANTS NS,         \* required specifications are 0..NS (0 = Interface)
          NG,         \* registries 1..NG
          PBases,     \* <<bases of provided 1, ...>> : static provided DAG
          Names,      \* registration names (strings)
          Vals,       \* value identities
          EqClass,    \* [Vals -> Nat] : values of one class compare equal
          Flavour,    \* "push" (AdapterRegistry) | "verify" (Verifying...)
          PinnedC06   \* TRUE: cached registry ro only refreshed by own
                      \* __bases__ assignment, as shipped at the pin

VARIABLES sbases,     \* [0..NS -> Seq]  bases of the required specifications
          ssro,       \* [0..NS -> Seq]  their __sro__ (C02/C03 are assumed:
                      \* always the C3 order of the current sbases)
          regs,       \* [Regs -> SUBSET Entry]       _adapters
          subs,       \* [Regs -> SUBSET SubEntry]    _subscribers
          pcount,     \* [Regs -> [Provs -> Nat]]     _provided
          ext,        \* [Regs -> [Provs -> Seq]]     _v_lookup._extendors
          rbases,     \* [Regs -> Seq(Regs)]          __bases__
          rro,        \* [Regs -> Seq(Regs)]          ro (cached)
          vro,        \* [Regs -> Seq(Regs)]          _verify_ro
          vdirty,     \* [Regs -> BOOLEAN]  a generation in _verify_ro moved
          cache,      \* [Regs -> SUBSET CacheEntry]  _cache
          mcache,     \* [Regs -> SUBSET ...]         _mcache
          scache,     \* [Regs -> SUBSET ...]         _scache
          watch       \* [Regs -> SUBSET 0..NS]       _required

primary == <<sbases, ssro, regs, subs, pcount, ext, rbases>>
lookupside == <<rro, vro, vdirty, cache, mcache, scache, watch>>
vars == <<primary, lookupside>>

Regs == 1..NG
Specs == 0..NS
NP == Len(PBases)
Provs == 1..NP
PNone == 0                       \* provided=None (handlers)
NONE == -1                       \* no adapter found / no value given
MISS == -2

PB0 == [p \in 0..NP |-> IF p = 0 THEN <<>> ELSE PBases[p]]
PAncF == [p \in 0..NP |-> ReachSet(PB0, p)]
PAnc(p) == PAncF[p]              \* provided interfaces p is-or-extends
PExtends(p, q) == q \in PAncF[p]  \* p isOrExtends q

Sro(s) == ssro[s]
SroOf(b) == [s \in Specs |-> C3(b, s)]
SIsOrExt(s, t) == t \in SeqSet(ssro[s])

FirstNN(seq) ==
    LET hits == {i \in DOMAIN seq : seq[i] # NONE}
    IN IF hits = {} THEN NONE ELSE seq[Min(hits)]

HasPrefix(e, pre) == /\ Len(e.req) >= Len(pre)
                     /\ SubSeq(e.req, 1, Len(pre)) = pre

(***************************************************************************)
(* Mechanism: the nested walk.  Leaves enumerates, in the order _lookup    *)
(* visits them, the innermost {name: value} mappings: position by          *)
(* position along each looked-up specification's __sro__, then along the   *)
(* extendor list of the requested provided interface.  _lookupAll and      *)
(* _subscriptions visit exactly the reverse of this sequence.              *)
(***************************************************************************)
RECURSIVE Leaves(_, _, _, _)
Leaves(E, req, pre, extl) ==
    IF Len(pre) = Len(req)
       THEN [k \in DOMAIN extl |->
                {e \in E : e.req = pre /\ e.prov = extl[k]}]
       ELSE LET sr == Sro(req[Len(pre) + 1])
            IN Concat([k \in DOMAIN sr |->
                 IF {e \in E : HasPrefix(e, Append(pre, sr[k]))} = {}
                    THEN <<>>
                    ELSE Leaves(E, req, Append(pre, sr[k]), extl)])

OfArity(E, n) == {e \in E : Len(e.req) = n}

\* all leaves over the registry's CACHED resolution order ro_
RegLeaves(ro_, req, p) ==
    Concat([k \in DOMAIN ro_ |->
        LET r == ro_[k]
        IN IF ext[r][p] = <<>> THEN <<>>
           ELSE Leaves(OfArity(regs[r], Len(req)), req, <<>>, ext[r][p])])

LeafGet(leaf, name) ==
    LET c == {e \in leaf : e.name = name}
    IN IF c = {} THEN NONE ELSE (CHOOSE e \in c : TRUE).val

UncachedLookup(ro_, req, p, name) ==
    LET lv == RegLeaves(ro_, req, p)
    IN FirstNN([k \in DOMAIN lv |-> LeafGet(lv[k], name)])

\* reversed walk + dict.update: per name the LAST update wins
UncachedLookupAll(ro_, req, p) ==
    LET lv == Reverse(RegLeaves(ro_, req, p))
        RECURSIVE Upd(_, _)
        Upd(acc, k) ==
            IF k > Len(lv) THEN acc
            ELSE Upd({x \in acc : ~\E e \in lv[k] : e.name = x[1]}
                     \cup {<<e.name, e.val>> : e \in lv[k]}, k + 1)
    IN Upd({}, 1)

SubExtList(r, p) == IF p = PNone THEN <<PNone>> ELSE ext[r][p]

UncachedSubs(ro_, req, p) ==
    LET rr == Reverse(ro_)
        perreg == [k \in DOMAIN rr |->
            LET r == rr[k]
                lv == Reverse(Leaves(OfArity(subs[r], Len(req)), req, <<>>,
                                     SubExtList(r, p)))
            IN Concat([j \in DOMAIN lv |->
                  IF lv[j] = {} THEN <<>>
                  ELSE (CHOOSE e \in lv[j] : TRUE).vals])]
    IN Concat(perreg)

(***************************************************************************)
(* Extendors (add_extendor / remove_extendor)                              *)
(***************************************************************************)
AddExt(x, p) ==
    [i \in Provs |->
        IF i \in PAnc(p)
           THEN SelectSeq(x[i], LAMBDA e : PExtends(p, e)) \o <<p>> \o
                SelectSeq(x[i], LAMBDA e : ~PExtends(p, e))
           ELSE x[i]]
RemExt(x, p) ==
    [i \in Provs |-> IF i \in PAnc(p) THEN SelectSeq(x[i], LAMBDA e : e # p)
                     ELSE x[i]]

(***************************************************************************)
(* Registry chain                                                          *)
(***************************************************************************)
FreshRoB(rb, g) == C3Raw(rb, g)
FreshRo(g) == FreshRoB(rbases, g)
SubRegs(rb, g) == {h \in Regs : g \in SeqSet(rb[h])}
RECURSIVE DescRegs(_, _, _)
DescRegs(rb, G, k) ==
    IF k = 0 THEN G
    ELSE DescRegs(rb, G \cup UNION {SubRegs(rb, g) : g \in G}, k - 1)

\* Registries whose lookup object is told "changed" when registry g changes,
\* and registries whose generation is bumped.
Notified(rb, g) == IF Flavour = "push" THEN DescRegs(rb, {g}, NG) ELSE {g}

(***************************************************************************)
(* The invalidation step.  G = lookup objects whose changed() runs,        *)
(* B = registries whose _generation is bumped, rb = registry bases after   *)
(* the step, R = registries whose cached ro is recomputed by _setBases.    *)
(* add* = cache entries stored after the clearing (by a query).            *)
(***************************************************************************)
Touch(G, B, rb, R, addc, addm, adds, addw) ==
    /\ rro' = [g \in Regs |->
                 IF g \in R \/ (g \in G /\ ~PinnedC06) THEN FreshRoB(rb, g)
                 ELSE rro[g]]
    /\ vro' = [g \in Regs |-> IF g \in G THEN Tail(rro'[g]) ELSE vro[g]]
    /\ vdirty' = [g \in Regs |->
                    IF g \in G THEN FALSE
                    ELSE vdirty[g] \/ (B \cap SeqSet(vro[g]) # {})]
    /\ cache' = [g \in Regs |-> (IF g \in G THEN {} ELSE cache[g]) \cup addc[g]]
    /\ mcache' = [g \in Regs |-> (IF g \in G THEN {} ELSE mcache[g]) \cup addm[g]]
    /\ scache' = [g \in Regs |-> (IF g \in G THEN {} ELSE scache[g]) \cup adds[g]]
    /\ watch' = [g \in Regs |-> (IF g \in G THEN {} ELSE watch[g]) \cup addw[g]]

NoAdd == [g \in Regs |-> {}]
RegistryChanged(g) ==
    Touch(Notified(rbases, g), Notified(rbases, g), rbases, {},
          NoAdd, NoAdd, NoAdd, NoAdd)

(***************************************************************************)
(* Mutators                                                                *)
(***************************************************************************)
KeyOf(e) == <<e.req, e.prov, e.name>>
Find(E, req, p, name) == {e \in E : e.req = req /\ e.prov = p /\ e.name = name}

Register(g, req, p, name, v) ==
    LET old == Find(regs[g], req, p, name)
    IN /\ ~\E e \in old : e.val = v            \* same object: no-op
       /\ regs' = [regs EXCEPT ![g] = (@ \ old) \cup
                     {[req |-> req, prov |-> p, name |-> name, val |-> v]}]
       /\ pcount' = [pcount EXCEPT ![g][p] = @ + 1]   \* also on overwrite
       /\ ext' = IF pcount[g][p] = 0
                    THEN [ext EXCEPT ![g] = AddExt(@, p)] ELSE ext
       /\ RegistryChanged(g)
       /\ UNCHANGED <<sbases, ssro, subs, rbases>>

RegisterSame(g, req, p, name, v) ==
    \* re-registering the identical object: nothing happens at all
    /\ \E e \in Find(regs[g], req, p, name) : e.val = v
    /\ UNCHANGED vars

\* unregister(required, provided, name[, value]); v = NONE: no value given
Unregister(g, req, p, name, v) ==
    LET old == Find(regs[g], req, p, name)
    IN IF old = {} \/ (v # NONE /\ \A e \in old : e.val # v)
          THEN UNCHANGED vars
          ELSE /\ regs' = [regs EXCEPT ![g] = @ \ old]
               /\ pcount' = [pcount EXCEPT ![g][p] = @ - 1]
               /\ ext' = IF pcount[g][p] = 1
                            THEN [ext EXCEPT ![g] = RemExt(@, p)] ELSE ext
               /\ RegistryChanged(g)
               /\ UNCHANGED <<sbases, ssro, subs, rbases>>

SFind(S, req, p) == {e \in S : e.req = req /\ e.prov = p}

Subscribe(g, req, p, v) ==
    LET old == SFind(subs[g], req, p)
        ov == IF old = {} THEN <<>> ELSE (CHOOSE e \in old : TRUE).vals
    IN /\ subs' = [subs EXCEPT ![g] = (@ \ old) \cup
                     {[req |-> req, prov |-> p, vals |-> Append(ov, v)]}]
       /\ IF p = PNone THEN UNCHANGED <<pcount, ext>>
          ELSE /\ pcount' = [pcount EXCEPT ![g][p] = @ + 1]
               /\ ext' = IF pcount[g][p] = 0
                            THEN [ext EXCEPT ![g] = AddExt(@, p)] ELSE ext
       /\ RegistryChanged(g)
       /\ UNCHANGED <<sbases, ssro, regs, rbases>>

\* unsubscribe(required, provided[, value]); v = NONE: remove all
Unsubscribe(g, req, p, v) ==
    LET old == SFind(subs[g], req, p)
        ov == IF old = {} THEN <<>> ELSE (CHOOSE e \in old : TRUE).vals
        nv == IF v = NONE THEN <<>>
              ELSE SelectSeq(ov, LAMBDA w : EqClass[w] # EqClass[v])
    IN IF old = {} \/ Len(nv) = Len(ov)
          THEN UNCHANGED vars
          ELSE /\ subs' = [subs EXCEPT ![g] =
                     IF nv = <<>> THEN @ \ old
                     ELSE (@ \ old) \cup {[req |-> req, prov |-> p,
                                           vals |-> nv]}]
               /\ IF p = PNone THEN UNCHANGED <<pcount, ext>>
                  ELSE LET n == pcount[g][p] + Len(nv) - Len(ov)
                       IN /\ pcount' = [pcount EXCEPT ![g][p] = n]
                          /\ ext' = IF n = 0
                                       THEN [ext EXCEPT ![g] = RemExt(@, p)]
                                       ELSE ext
               /\ RegistryChanged(g)
               /\ UNCHANGED <<sbases, ssro, regs, rbases>>

RegAcyclic(rb) ==
    \A g \in Regs :
        LET RECURSIVE Up(_, _)
            Up(S, k) == IF k = 0 THEN S
                        ELSE Up(S \cup UNION {SeqSet(rb[m]) : m \in S}, k - 1)
        IN g \notin Up(SeqSet(rb[g]), NG + 1)

SetRegBases(g, nb) ==
    LET rb == [rbases EXCEPT ![g] = nb]
    IN /\ NoDup(nb) /\ g \notin SeqSet(nb)
       /\ RegAcyclic(rb)
       /\ \A h \in Regs : C3Raw(rb, h) # FAIL
       /\ rbases' = rb
       /\ Touch(Notified(rb, g), Notified(rb, g), rb, {g},
                NoAdd, NoAdd, NoAdd, NoAdd)
       /\ UNCHANGED <<sbases, ssro, regs, subs, pcount, ext>>

\* linear extensions "more general first" of a set of provided interfaces
Perms(S) == {s \in [1..Cardinality(S) -> S] : NoDup(s)}
GeneralFirst(s) == \A i, j \in DOMAIN s :
                      (s[i] # s[j] /\ PExtends(s[j], s[i])) => i < j

Rebuild(g) ==
    LET live == {p \in Provs : (\E e \in regs[g] : e.prov = p)
                               \/ (\E e \in subs[g] : e.prov = p)}
        cnt(p) == Cardinality({e \in regs[g] : e.prov = p}) +
                  (LET ss == {e \in subs[g] : e.prov = p}
                       RECURSIVE Sum(_)
                       Sum(S) == IF S = {} THEN 0
                                 ELSE LET x == CHOOSE y \in S : TRUE
                                      IN Len(x.vals) + Sum(S \ {x})
                   IN Sum(ss))
    IN /\ pcount' = [pcount EXCEPT ![g] = [p \in Provs |-> cnt(p)]]
       /\ \E x \in [Provs -> UNION {Perms(T) : T \in SUBSET live}] :
             /\ \A i \in Provs :
                   /\ SeqSet(x[i]) = {p \in live : i \in PAnc(p)}
                   /\ GeneralFirst(x[i])
             /\ ext' = [ext EXCEPT ![g] = x]
       /\ Touch(Notified(rbases, g), Notified(rbases, g), rbases, {g},
                NoAdd, NoAdd, NoAdd, NoAdd)
       /\ UNCHANGED <<sbases, ssro, regs, subs, rbases>>

\* The lookup object is created anew over the populated registry
\* (_createLookup(): what __setstate__ of a persistent registry does after
\* loading; rebuild() does it too).  init_extendors re-derives the extendor
\* lists from _provided, in whatever order that mapping lists the interfaces:
\* any "more general first" linear extension; nothing is cached any more.
Relookup(g) ==
    LET live == {p \in Provs : pcount[g][p] > 0}
    IN /\ \E x \in [Provs -> UNION {Perms(T) : T \in SUBSET live}] :
             /\ \A i \in Provs :
                   /\ SeqSet(x[i]) = {p \in live : i \in PAnc(p)}
                   /\ GeneralFirst(x[i])
             /\ ext' = [ext EXCEPT ![g] = x]
       /\ Touch({g}, {}, rbases, {}, NoAdd, NoAdd, NoAdd, NoAdd)
       /\ UNCHANGED <<sbases, ssro, regs, subs, pcount, rbases>>

\* __bases__ reassignment of a required specification (interface or
\* declaration): every lookup object watching s or a descendant of s hears
\* about it (Specification.changed -> dependents -> lookup.changed)
SDesc(b, s) == {t \in Specs : s \in ReachSet(b, t)}
SAcyclic(b) ==
    \A n \in Specs :
        LET RECURSIVE Up(_, _)
            Up(S, k) == IF k = 0 THEN S
                        ELSE Up(S \cup UNION {SeqSet(b[m]) : m \in S}, k - 1)
        IN n \notin Up(SeqSet(b[n]), NS + 1)

SetSpecBases(s, nb) ==
    LET b == [sbases EXCEPT ![s] = nb]
        G == {g \in Regs : watch[g] \cap SDesc(sbases, s) # {}}
    IN /\ s # Root /\ NoDup(nb) /\ s \notin SeqSet(nb)
       /\ Root \notin SeqSet(nb)
       /\ SAcyclic(b)
       /\ \A t \in Specs : C3(b, t) # FAIL
       /\ sbases' = b
       /\ ssro' = SroOf(b)
       /\ Touch(G, {}, rbases, {}, NoAdd, NoAdd, NoAdd, NoAdd)
       /\ UNCHANGED <<regs, subs, pcount, ext, rbases>>

(***************************************************************************)
(* Queries (each reads / fills the caches exactly as LookupBase does)      *)
(***************************************************************************)
\* VerifyingBase._verify: runs before every cache access
VerifyG(g) == IF Flavour = "verify" /\ vdirty[g] THEN {g} ELSE {}
\* the ro a query sees after _verify
RoSeen(g) == IF g \in VerifyG(g) /\ ~PinnedC06 THEN FreshRo(g) ELSE rro[g]
CacheSeen(c, g) == IF g \in VerifyG(g) THEN {} ELSE c[g]

CacheHit(g, req, p, name) ==
    LET c == {x \in CacheSeen(cache, g) :
                 x.req = req /\ x.prov = p /\ x.name = name}
    IN IF c = {} THEN MISS ELSE (CHOOSE x \in c : TRUE).val

Only(g, S) == [h \in Regs |-> IF h = g THEN S ELSE {}]

\* lookup / lookup1 / adapter_hook / queryAdapter / queryMultiAdapter all
\* funnel into this on a miss; lookup1 and adapter_hook read the same cache
LookupResult(g, req, p, name) ==
    LET h == CacheHit(g, req, p, name)
    IN IF h # MISS THEN h ELSE UncachedLookup(RoSeen(g), req, p, name)

QLookup(g, req, p, name) ==
    LET h == CacheHit(g, req, p, name)
        r == LookupResult(g, req, p, name)
    IN /\ IF h # MISS
             THEN Touch(VerifyG(g), {}, rbases, {}, NoAdd, NoAdd, NoAdd, NoAdd)
             ELSE Touch(VerifyG(g), {}, rbases, {},
                        Only(g, {[req |-> req, prov |-> p, name |-> name,
                                  val |-> r]}),
                        NoAdd, NoAdd, Only(g, SeqSet(req)))
       /\ UNCHANGED primary

MHas(g, req, p) ==
    \E x \in CacheSeen(mcache, g) : x.req = req /\ x.prov = p
MHit(g, req, p) ==
    (CHOOSE x \in CacheSeen(mcache, g) : x.req = req /\ x.prov = p).res
LookupAllResult(g, req, p) ==
    IF MHas(g, req, p) THEN MHit(g, req, p)
    ELSE UncachedLookupAll(RoSeen(g), req, p)
QLookupAll(g, req, p) ==
    /\ (IF MHas(g, req, p)
           THEN Touch(VerifyG(g), {}, rbases, {}, NoAdd, NoAdd, NoAdd, NoAdd)
           ELSE Touch(VerifyG(g), {}, rbases, {}, NoAdd,
                      Only(g, {[req |-> req, prov |-> p,
                                res |-> LookupAllResult(g, req, p)]}),
                      NoAdd, Only(g, SeqSet(req))))
    /\ UNCHANGED primary

SHas(g, req, p) ==
    \E x \in CacheSeen(scache, g) : x.req = req /\ x.prov = p
SHit(g, req, p) ==
    (CHOOSE x \in CacheSeen(scache, g) : x.req = req /\ x.prov = p).res
SubsResult(g, req, p) ==
    IF SHas(g, req, p) THEN SHit(g, req, p)
    ELSE UncachedSubs(RoSeen(g), req, p)
QSubs(g, req, p) ==
    /\ (IF SHas(g, req, p)
           THEN Touch(VerifyG(g), {}, rbases, {}, NoAdd, NoAdd, NoAdd, NoAdd)
           ELSE Touch(VerifyG(g), {}, rbases, {}, NoAdd, NoAdd,
                      Only(g, {[req |-> req, prov |-> p,
                                res |-> SubsResult(g, req, p)]}),
                      Only(g, SeqSet(req))))
    /\ UNCHANGED primary

(***************************************************************************)
(* Declarative side                                                        *)
(***************************************************************************)
ReqApplies(ereq, req) ==
    /\ Len(ereq) = Len(req)
    /\ \A i \in DOMAIN req : SIsOrExt(req[i], ereq[i])

ApplicableF(fr, req, p, name) ==
    UNION {{[r |-> r, e |-> e] : e \in {e \in regs[r] :
                /\ e.name = name
                /\ ReqApplies(e.req, req)
                /\ PExtends(e.prov, p)}} : r \in SeqSet(fr)}
Applicable(g, req, p, name) == ApplicableF(FreshRo(g), req, p, name)

RankF(fr, req, x) ==
    <<IndexOf(fr, x.r)>> \o
    [i \in DOMAIN req |-> IndexOf(Sro(req[i]), x.e.req[i])]

Admissible(g, req, p, name) ==
    LET fr == FreshRo(g)
        app == ApplicableF(fr, req, p, name)
        rk == [x \in app |-> RankF(fr, req, x)]
        best == {x \in app : \A y \in app : ~LexLess(rk[y], rk[x])}
        undom == {x \in best : ~\E y \in best :
                    y.e.prov # x.e.prov /\ PExtends(x.e.prov, y.e.prov)}
    IN IF app = {} THEN {NONE} ELSE {x.e.val : x \in undom}

AllNames(g, req, p) ==
    {nm \in Names : Applicable(g, req, p, nm) # {}}

\* live subscriptions applicable to a subscriptions(req, p) call
SubApplicable(g, req, p) ==
    UNION {{[r |-> r, e |-> e] : e \in {e \in subs[r] :
                /\ ReqApplies(e.req, req)
                /\ IF p = PNone THEN e.prov = PNone
                   ELSE e.prov # PNone /\ PExtends(e.prov, p)}} :
           r \in SeqSet(FreshRo(g))}

\* the result, as a sequence of values, must be a concatenation of the
\* applicable entries' value sequences (each exactly once, in subscription
\* order) such that (i) base registries come first, (ii) within a registry
\* an entry whose required tuple is pointwise more general comes first.
MoreGeneralReq(a, b) ==     \* a strictly more general than b, pointwise
    /\ a # b
    /\ \A i \in DOMAIN a : SIsOrExt(b[i], a[i])

\* x must come before y in any admissible subscriptions() result
SubBefore(fr, x, y) ==
    \/ IndexOf(fr, x.r) > IndexOf(fr, y.r)
    \/ (x.r = y.r /\ MoreGeneralReq(x.e.req, y.e.req))

\* all linear extensions of SubBefore over the set S
RECURSIVE LinExt(_, _)
LinExt(fr, S) ==
    IF S = {} THEN {<<>>}
    ELSE UNION {{<<x>> \o t : t \in LinExt(fr, S \ {x})} :
                x \in {x \in S : ~\E y \in S : y # x /\ SubBefore(fr, y, x)}}

SubsAdmSet(g, req, p) ==
    LET app == SubApplicable(g, req, p)
    IN {Concat([k \in DOMAIN order |-> order[k].e.vals]) :
            order \in LinExt(FreshRo(g), app)}

SubsAdmissible(g, req, p, result) == result \in SubsAdmSet(g, req, p)

(***************************************************************************)
(* Properties                                                              *)
(***************************************************************************)
LookReqs == UNION {[1..n -> Specs] : n \in 0..2}

\* C04 + C06: the walk over the ro a query sees (the cached one, after
\* _verify for the verifying flavour) returns a best registration of the
\* CURRENT chain
WalkIsBest(LR, LP) ==
    \A g \in Regs : \A req \in LR : \A p \in LP : \A nm \in Names :
        UncachedLookup(RoSeen(g), req, p, nm) \in Admissible(g, req, p, nm)

\* C06
RoIsFresh == \A g \in Regs :
                (Flavour = "push" \/ ~vdirty[g]) => rro[g] = FreshRo(g)

\* C05: nothing stale is ever served: every entry a query could hit is an
\* admissible answer for the current primary state
CacheTransparent ==
    \A g \in Regs :
        /\ \A x \in CacheSeen(cache, g) :
              x.val \in Admissible(g, x.req, x.prov, x.name)
        /\ \A x \in CacheSeen(mcache, g) :
              /\ {y[1] : y \in x.res} = AllNames(g, x.req, x.prov)
              /\ \A y \in x.res : y[2] \in Admissible(g, x.req, x.prov, y[1])
        /\ \A x \in CacheSeen(scache, g) :
              SubsAdmissible(g, x.req, x.prov, x.res)

\* C07 on the mechanism (uncached, cached ro)
SubsExact(LR, LP) ==
    \A g \in Regs : \A req \in LR : \A p \in LP :
        SubsAdmissible(g, req, p, UncachedSubs(RoSeen(g), req, p))

\* C08 on the mechanism
EntryPointsAgree(LR, LP) ==
    \A g \in Regs : \A req \in LR : \A p \in LP :
        LET all == UncachedLookupAll(RoSeen(g), req, p)
        IN /\ \A nm \in Names :
                LET r == UncachedLookup(RoSeen(g), req, p, nm)
                IN IF r = NONE THEN ~\E y \in all : y[1] = nm
                   ELSE <<nm, r>> \in all
           /\ \A y \in all : y[1] \in Names

\* extendor lists are "more general first" and complete
ExtOK ==
    \A g \in Regs : \A i \in Provs :
        /\ GeneralFirst(ext[g][i])
        /\ NoDup(ext[g][i])
        /\ \A p \in Provs :
              ((\E e \in regs[g] : e.prov = p) \/ (\E e \in subs[g] : e.prov = p))
              /\ i \in PAnc(p) => p \in SeqSet(ext[g][i])

TypeOK ==
    /\ \A g \in Regs : \A e1, e2 \in regs[g] : KeyOf(e1) = KeyOf(e2) => e1 = e2
    /\ \A g \in Regs : \A e \in subs[g] : e.vals # <<>>
    /\ \A g \in Regs : rro[g] # <<>> /\ rro[g][1] = g

InitReg(sb, rb) ==
    /\ sbases = sb
    /\ ssro = SroOf(sb)
    /\ regs = [g \in Regs |-> {}]
    /\ subs = [g \in Regs |-> {}]
    /\ pcount = [g \in Regs |-> [p \in Provs |-> 0]]
    /\ ext = [g \in Regs |-> [p \in Provs |-> <<>>]]
    /\ rbases = rb
    /\ rro = [g \in Regs |-> FreshRoB(rb, g)]
    /\ vro = [g \in Regs |-> Tail(FreshRoB(rb, g))]
    /\ vdirty = [g \in Regs |-> FALSE]
    /\ cache = [g \in Regs |-> {}]
    /\ mcache = [g \in Regs |-> {}]
    /\ scache = [g \in Regs |-> {}]
    /\ watch = [g \in Regs |-> {}]
=============================================================================
