---------------------------- MODULE Declarations ----------------------------
(***************************************************************************)
(* Class and instance declarations of zope.interface (declarations.py and  *)
(* the C twins of implementedBy / providedBy / descriptors):               *)
(*   - per-class Implements specifications, created lazily by the first    *)
(*     implementedBy() and holding .declared / .inherit / __bases__        *)
(*   - _classImplements_ordered: elision of what is already implied,       *)
(*     de-duplication, recomputation of the bases                          *)
(*   - instance declarations: Provides objects shared through the weak     *)
(*     InstanceDeclarations cache keyed by (cls, *interfaces); interfaces  *)
(*     the class already implements are stripped when the object is built  *)
(*   - class-level provides (ClassProvides) that never leak to instances   *)
(*   - the per-class weak cache of specifications synthesised for super()  *)
(*   - the references the specifications pickle as                         *)
(* The resolution orders / implied sets of the specifications are NOT      *)
(* carried: C02/C03 (SpecGraph.tla) establish that they always equal what  *)
(* the current bases define; here Implied* are defined from current bases. *)
(*                                                                         *)
(* Properties: C01 ProvidedWithinInterval, NoLeak, UnrelatedUnchanged;     *)
(*             C19 SuperIsRestOfMro; C13 RoundTrip*.                       *)
(***************************************************************************)
EXTENDS C3Ops, TLC

CONSTANTS NI,         \* interfaces 1..NI (0 = Interface)
          IBases,     \* [0..NI -> Seq] static bases of the interfaces
          NC,         \* classes 1..NC (0 = object)
          PyBases,    \* [0..NC -> Seq(0..NC)] bases of the Python classes
          NO,         \* instances 1..NO
          ClassOf,    \* [1..NO -> 1..NC]
          PinnedC01,  \* TRUE: Provides() returns a cache hit unchecked
          PinnedC13   \* TRUE: Implements.__reduce__ uses .inherit only

VARIABLES hasSpec,    \* [0..NC -> BOOLEAN]  __implemented__ materialised
          declared,   \* [0..NC -> Seq(0..NI)]     Implements.declared
          inherit,    \* [0..NC -> BOOLEAN]        Implements.inherit set
          cbases,     \* [0..NC -> Seq(ref)]       Implements.__bases__
          prov,       \* [1..NO -> NoProv | Provides record]
          pcache,     \* set of Provides records in InstanceDeclarations
          cprov,      \* [1..NC -> Seq(0..NI) | NotSet] class-level provides
          supercache, \* [1..NC -> set of [this, keep]]  _super_cache
          \* ghost: what the declaration history demands
          gMust, gMay,    \* [1..NC -> SUBSET 0..NI] class declarations
          gInh,           \* [1..NC -> BOOLEAN] inheritance not cut by *Only
          oMust, oMay     \* [1..NO -> SUBSET 0..NI] direct declarations

mech == <<hasSpec, declared, inherit, cbases, prov, pcache, cprov, supercache>>
ghost == <<gMust, gMay, gInh, oMust, oMay>>
vars == <<mech, ghost>>

Ifaces == 0..NI
Classes == 1..NC
Objs == 1..NO
ClsRef(c) == 100 + c             \* reference to the Implements of class c
IsCls(r) == r >= 100
NoProv == [cls |-> 0, args |-> <<>>, bases |-> <<>>]
NotSet == <<-1>>

IAncF == [i \in Ifaces |-> ReachSet(IBases, i) \cup {Root}]
IAnc(i) == IAncF[i]
Closure(S) == UNION {IAnc(i) : i \in S} \cup {Root}
PB0 == PyBases
MroF == [c \in 0..NC |-> C3(PB0, c)]     \* Python MRO (0 = object last)
Mro(c) == MroF[c]
SubclassesOf(c) == {k \in Classes : c \in SeqSet(Mro(k))}

(***************************************************************************)
(* Mechanism                                                               *)
(***************************************************************************)
RECURSIVE ImplC(_, _)
ImplC(cb, c) ==      \* interfaces implied by the Implements of class c
    {Root} \cup UNION {IF IsCls(cb[c][k]) THEN ImplC(cb, cb[c][k] - 100)
                       ELSE IAnc(cb[c][k]) : k \in DOMAIN cb[c]}

RefClosure(cb, refs) ==
    {Root} \cup UNION {IF IsCls(refs[k]) THEN ImplC(cb, refs[k] - 100)
                       ELSE IAnc(refs[k]) : k \in DOMAIN refs}

\* classes whose Implements (transitively) lists class c's Implements
RECURSIVE DependsOn(_, _, _)
DependsOn(cb, k, c) ==
    \E i \in DOMAIN cb[k] :
        IsCls(cb[k][i]) /\ (cb[k][i] - 100 = c \/ DependsOn(cb, cb[k][i] - 100, c))

\* st = [hasSpec, declared, inherit, cbases]
\* implementedBy(c) the first time: bases' specs first, then c's
RECURSIVE Materialize(_, _)
Materialize(st, c) ==
    IF st.hasSpec[c] THEN st
    ELSE LET RECURSIVE Bases(_, _)
             Bases(s, i) == IF i > Len(PyBases[c]) THEN s
                            ELSE Bases(Materialize(s, PyBases[c][i]), i + 1)
             s1 == Bases(st, 1)
         IN [hasSpec  |-> [s1.hasSpec EXCEPT ![c] = TRUE],
             declared |-> [s1.declared EXCEPT ![c] = <<>>],
             inherit  |-> [s1.inherit EXCEPT ![c] = TRUE],
             cbases   |-> [s1.cbases EXCEPT ![c] =
                             [i \in DOMAIN PyBases[c] |-> ClsRef(PyBases[c][i])]]]

Dedupe(s) == SelectSeq([i \in DOMAIN s |->
                           IF \E j \in DOMAIN s : j < i /\ s[j] = s[i]
                              THEN -1 ELSE s[i]], LAMBDA x : x # -1)

\* _classImplements_ordered(spec, before, after)
Ordered(st, c, before, after) ==
    LET impl == ImplC(st.cbases, c)
        keep(x) == x \notin impl \/ (x = Root /\ st.declared[c] = <<>>)
        b == SelectSeq(before, keep)
        a == SelectSeq(after, keep)
        nd == Dedupe(b \o st.declared[c] \o a)
        inh == IF st.inherit[c]
                  THEN [i \in DOMAIN PyBases[c] |-> ClsRef(PyBases[c][i])]
                  ELSE <<>>
    IN [st EXCEPT !.declared[c] = nd, !.cbases[c] = Dedupe(nd \o inh)]

StrictExt(i, b) == i # b /\ b \in IAnc(i)      \* i.extends(b)

ClassImplementsSt(st0, c, ifs) ==
    LET st == Materialize(st0, c)
        isBefore(x) == \E k \in DOMAIN st.declared[c] :
                          StrictExt(x, st.declared[c][k])
    IN Ordered(st, c, SelectSeq(ifs, isBefore),
               SelectSeq(ifs, LAMBDA x : ~isBefore(x)))

ClassImplementsOnlySt(st0, c, ifs) ==
    LET st == Materialize(st0, c)
        s1 == [st EXCEPT !.declared[c] = <<>>, !.inherit[c] = FALSE,
                         !.cbases[c] = <<>>]
    IN Ordered(s1, c, ifs, <<>>)

ClassImplementsFirstSt(st0, c, i) ==
    Ordered(Materialize(st0, c), c, <<i>>, <<>>)

CurSt == [hasSpec |-> hasSpec, declared |-> declared, inherit |-> inherit,
          cbases |-> cbases]

\* Provides(cls, *args): the factory with its shared cache
ProvRecProvided(cb, rec) == RefClosure(cb, rec.bases)
NewProvRec(st, cls, args) ==
    [cls |-> cls, args |-> args,
     bases |-> SelectSeq(args, LAMBDA x : x \notin ImplC(st.cbases, cls))
               \o <<ClsRef(cls)>>]
\* Provides(cls, *args): a cache hit is returned as it is.  Shipped: every
\* shared declaration re-derives its bases whenever its class specification
\* changes (ProvidesClass.changed, see Refresh below), so a hit always says
\* what is asked for.  PinnedC01: declarations are never refreshed (as at the
\* pin), a hit may have left out an interface the class no longer implements.
ProvidesGet(st, cls, args) ==
    LET hit == {r \in pcache : r.cls = cls /\ r.args = args}
    IN IF hit # {} THEN CHOOSE r \in hit : TRUE
       ELSE NewProvRec(st, cls, args)

\* ProvidesClass.changed: re-strip the declared interfaces against what the
\* class implements NOW
Refresh(st, rec) ==
    IF rec = NoProv \/ PinnedC01 THEN rec
    ELSE NewProvRec(st, rec.cls, rec.args)
RefreshAll(st) ==
    /\ prov' = [o \in Objs |-> Refresh(st, prov[o])]
    /\ pcache' = {Refresh(st, r) : r \in pcache}

DirectOf(rec) == IF rec = NoProv THEN <<>>
                 ELSE SubSeq(rec.bases, 1, Len(rec.bases) - 1)

\* what the mechanism state says an instance / a class provides
ProvidedO(st, pv, o) ==
    IF pv[o] = NoProv THEN ImplC(Materialize(st, ClassOf[o]).cbases, ClassOf[o])
    ELSE ProvRecProvided(st.cbases, pv[o])
ImplementedC(st, c) == ImplC(Materialize(st, c).cbases, c)
ProvidedClassObj(c) == IF cprov[c] = NotSet THEN {Root}
                       ELSE Closure(SeqSet(cprov[c]))

(***************************************************************************)
(* Ghost: the interval the declaration history allows                      *)
(***************************************************************************)
RECURSIVE MayC(_, _, _)
MayC(may, inh, c) ==
    IF c = 0 THEN {Root}
    ELSE Closure(may[c]) \cup
         (IF inh[c] THEN UNION {MayC(may, inh, PyBases[c][k]) :
                                    k \in DOMAIN PyBases[c]} ELSE {})
MustCls(c) == MayC(gMust, gInh, c)
MayCls(c) == MayC(gMay, gInh, c)
MustObj(o) == Closure(oMust[o]) \cup MustCls(ClassOf[o])
MayObj(o) == Closure(oMay[o]) \cup MayCls(ClassOf[o])

(***************************************************************************)
(* Actions                                                                 *)
(***************************************************************************)
Prune(pv, pc) == {r \in pc : \E o \in Objs : pv[o] = r}

\* Implements.changed of class k (and of every spec depending on it) drops
\* the super cache
DropSuper(cbNew, changed) ==
    [k \in Classes |->
        IF k \in changed \/ \E c \in changed : DependsOn(cbNew, k, c)
           THEN {} ELSE supercache[k]]

SetSt(st) == /\ hasSpec' = st.hasSpec
             /\ declared' = st.declared
             /\ inherit' = st.inherit
             /\ cbases' = st.cbases

Query(c) ==        \* implementedBy(c) with no other effect
    /\ ~hasSpec[c]
    /\ SetSt(Materialize(CurSt, c))
    /\ UNCHANGED <<prov, pcache, cprov, supercache, ghost>>

ClassImplements(c, ifs) ==
    LET st == ClassImplementsSt(CurSt, c, ifs)
    IN /\ SetSt(st)
       /\ supercache' = DropSuper(st.cbases, {c})
       /\ gMay' = [gMay EXCEPT ![c] = @ \cup SeqSet(ifs)]
       /\ gMust' = [gMust EXCEPT ![c] =
                       @ \cup {x \in SeqSet(ifs) : x \notin MayCls(c)}]
       /\ RefreshAll(st)
       /\ UNCHANGED <<cprov, gInh, oMust, oMay>>

ClassImplementsFirst(c, i) ==
    LET st == ClassImplementsFirstSt(CurSt, c, i)
    IN /\ SetSt(st)
       /\ supercache' = DropSuper(st.cbases, {c})
       /\ gMay' = [gMay EXCEPT ![c] = @ \cup {i}]
       /\ gMust' = [gMust EXCEPT ![c] = @ \cup ({i} \ MayCls(c))]
       /\ RefreshAll(st)
       /\ UNCHANGED <<cprov, gInh, oMust, oMay>>

ClassImplementsOnly(c, ifs) ==
    LET st == ClassImplementsOnlySt(CurSt, c, ifs)
    IN /\ SetSt(st)
       /\ supercache' = DropSuper(st.cbases, {c})
       /\ gMay' = [gMay EXCEPT ![c] = SeqSet(ifs)]
       /\ gMust' = [gMust EXCEPT ![c] = SeqSet(ifs)]
       /\ gInh' = [gInh EXCEPT ![c] = FALSE]
       /\ RefreshAll(st)
       /\ UNCHANGED <<cprov, oMust, oMay>>

\* directlyProvides(o, *ifs) on an instance
SetProvides(o, args, newMay, newMustCand) ==
    LET st == Materialize(CurSt, ClassOf[o])
        rec == ProvidesGet(st, ClassOf[o], args)
        pv == [prov EXCEPT ![o] = rec]
    IN /\ SetSt(st)
       /\ prov' = pv
       /\ pcache' = Prune(pv, {r \in pcache : ~(r.cls = rec.cls /\ r.args = rec.args)}
                              \cup {rec})
       /\ oMay' = [oMay EXCEPT ![o] = newMay]
       /\ oMust' = [oMust EXCEPT ![o] =
                       {x \in newMustCand : x \notin MayCls(ClassOf[o])}]
       /\ UNCHANGED <<cprov, supercache, gMust, gMay, gInh>>

DirectlyProvides(o, ifs) == SetProvides(o, ifs, SeqSet(ifs), SeqSet(ifs))

AlsoProvides(o, i) ==
    SetProvides(o, DirectOf(prov[o]) \o <<i>>, oMay[o] \cup {i},
                oMust[o] \cup {i})

\* noLongerProvides(o, i): mutates, then raises ValueError if i is still
\* provided (through the class); the mutation stays
NoLongerProvides(o, i) ==
    LET keep(x) == i \notin IAnc(x)
    IN SetProvides(o, SelectSeq(DirectOf(prov[o]), keep),
                   {x \in oMay[o] : keep(x)}, {x \in oMust[o] : keep(x)})
NoLongerRaises(o, i) ==     \* evaluated in the successor state
    i \in ProvidedO(CurSt, prov, o)

\* directlyProvides(cls, *ifs) / @provider on a class object
ClassProvides(c, ifs) ==
    /\ SetSt(Materialize(CurSt, c))
    /\ cprov' = [cprov EXCEPT ![c] = ifs]
    /\ UNCHANGED <<prov, pcache, supercache, ghost>>

\* alsoProvides(cls, i) on a class object: the new declaration is built from
\* the old one (a nested declaration argument) plus i
AlsoClassProvides(c, i) ==
    /\ SetSt(Materialize(CurSt, c))
    /\ cprov' = [cprov EXCEPT ![c] =
                    (IF @ = NotSet THEN <<>> ELSE @) \o
                    (IF @ # NotSet /\ i \in SeqSet(@) THEN <<>> ELSE <<i>>)]
    /\ UNCHANGED <<prov, pcache, supercache, ghost>>

\* providedBy(super(c, o)) the first time for (type(o), c)
RestOfMro(t, c) ==
    LET m == Mro(t) IN SubSeq(m, IndexOf(m, c) + 1, Len(m))
RECURSIVE MaterializeAll(_, _)
MaterializeAll(st, cs) ==
    IF cs = <<>> THEN st ELSE MaterializeAll(Materialize(st, Head(cs)), Tail(cs))
SuperQuery(t, c) ==
    /\ c \in SeqSet(Mro(t)) /\ c # 0
    /\ ~\E e \in supercache[t] : e.this = c
    /\ SetSt(MaterializeAll(Materialize(CurSt, t), RestOfMro(t, c)))
    /\ supercache' = [supercache EXCEPT ![t] =
                         @ \cup {[this |-> c, keep |-> RestOfMro(t, c)]}]
    /\ UNCHANGED <<prov, pcache, cprov, ghost>>

SuperProvided(st, t, c) ==
    LET hit == {e \in supercache[t] : e.this = c}
        keep == IF hit = {} THEN RestOfMro(t, c)
                ELSE (CHOOSE e \in hit : TRUE).keep
        s2 == MaterializeAll(st, keep)
    IN {Root} \cup UNION {ImplC(s2.cbases, keep[k]) : k \in DOMAIN keep}

(***************************************************************************)
(* Pickling (C13): what a specification reduces to, and what resolving the *)
(* reference in the current world gives                                    *)
(***************************************************************************)
\* Implements of class c: (implementedBy, (inherit or the class,))
ClassSpecRoundTrip(c) ==
    IF PinnedC13 /\ ~inherit[c] THEN "empty" ELSE "same"

\* Provides record of o: (Provides, (cls, *args)) -> the factory again
ProvidesRoundTrip(o) ==
    LET rec == prov[o]
    IN ProvRecProvided(cbases, ProvidesGet(CurSt, rec.cls, rec.args))

(***************************************************************************)
(* Init                                                                    *)
(***************************************************************************)
Init ==
    /\ hasSpec = [c \in 0..NC |-> c = 0]
    /\ declared = [c \in 0..NC |-> <<>>]
    /\ inherit = [c \in 0..NC |-> TRUE]
    /\ cbases = [c \in 0..NC |-> <<>>]
    /\ prov = [o \in Objs |-> NoProv]
    /\ pcache = {}
    /\ cprov = [c \in Classes |-> NotSet]
    /\ supercache = [c \in Classes |-> {}]
    /\ gMust = [c \in Classes |-> {}]
    /\ gMay = [c \in Classes |-> {}]
    /\ gInh = [c \in Classes |-> TRUE]
    /\ oMust = [o \in Objs |-> {}]
    /\ oMay = [o \in Objs |-> {}]

(***************************************************************************)
(* Properties                                                              *)
(***************************************************************************)
\* C01
ProvidedWithinInterval ==
    /\ \A o \in Objs :
          LET p == ProvidedO(CurSt, prov, o)
          IN MustObj(o) \subseteq p /\ p \subseteq MayObj(o)
    /\ \A c \in Classes :
          LET p == ImplementedC(CurSt, c)
          IN MustCls(c) \subseteq p /\ p \subseteq MayCls(c)

\* class-level provides never show on instances and vice versa: the
\* interval above does not mention cprov at all, and ProvidedClassObj does
\* not mention instance or class-implements state.
NoLeak == \A c \in Classes : ProvidedClassObj(c) =
              IF cprov[c] = NotSet THEN {Root} ELSE Closure(SeqSet(cprov[c]))

\* a declaration on x changes what is provided only for x (and, for a class,
\* for its subclasses and their instances): stated as the action property
\* Unrelated in MC_Declarations (it needs the action label).
AffectedByClass(c) == SubclassesOf(c)

\* C19
SuperIsRestOfMro ==
    \A t \in Classes : \A c \in SeqSet(Mro(t)) \ {0} :
        SuperProvided(CurSt, t, c) =
            {Root} \cup UNION {ImplementedC(CurSt, k) :
                                  k \in SeqSet(RestOfMro(t, c))}

\* C13
RoundTripIdentity == \A c \in Classes : hasSpec[c] => ClassSpecRoundTrip(c) = "same"
RoundTripSameInterfaces ==
    \A o \in Objs : prov[o] # NoProv =>
        LET p == ProvidesRoundTrip(o)
        IN MustObj(o) \subseteq p /\ p \subseteq MayObj(o)

TypeOK ==
    /\ \A c \in Classes : hasSpec[c] =>
          \A k \in DOMAIN cbases[c] : IsCls(cbases[c][k]) =>
              hasSpec[cbases[c][k] - 100]
    /\ \A o \in Objs : prov[o] # NoProv => prov[o].cls = ClassOf[o]
=============================================================================
