---------------------------- MODULE MC_LookupMem ----------------------------
EXTENDS LookupMem, Json

NoneP == [c \in CallOuts |-> "none"]
\* one foreign action at one call-out (single-frame schedules)
SinglePlans == {NoneP} \cup
    {[NoneP EXCEPT ![c] = a] : c \in CallOuts, a \in ForeignActs \ {"none"}}
\* two call-outs with foreign actions
PairPlans == SinglePlans \cup
    {[[NoneP EXCEPT ![c] = a] EXCEPT ![d] = b] :
        c \in {"A", "B", "C1"}, d \in {"C1", "C3", "D", "F"},
        a \in {"mutate", "nested"}, b \in {"mutate", "raise", "nested"}}
OnlyNone == {NoneP}
AllEntries == {"lookup", "lookup1", "hook", "all"}
LookupOnly == {"lookup"}

\* terminal states of single-thread runs: one completed top-level call
Terminal == \A t \in Threads : stack[t] = <<>> /\ Len(done[t]) = MaxCalls

Dump == Terminal => PrintT(ToJson([done |-> done, chg |-> chg, ver |-> ver,
                                   fresh |-> (cur = 0 \/ content[cur] = 0
                                              \/ content[cur] >= chg)]))
=============================================================================
