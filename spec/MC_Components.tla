--------------------------- MODULE MC_Components ---------------------------
(* Model-checking instance of Components.tla.  One module, several configs *)
(* (written by harness/check_components.py): which methods are enabled and  *)
(* over which argument universes is chosen by constants, so that the       *)
(* utility-counter, provided-chain/info/replace and the adapter /          *)
(* subscription / handler dimensions are exhausted separately and mixed    *)
(* in -simulate runs.  events / ret / call are excluded from the VIEW: they *)
(* are functions of (state before, call), printed per transition by Emit.  *)
EXTENDS Components, Json

CONSTANTS MaxDepth    \* bound on TLCGet("level") (100 = none in practice)

View == <<content, epoch>>
Bound == TLCGet("level") <= MaxDepth

\* identity of a state for the replay's path construction; uadp / aadp /
\* asub are determined by the listings (invariant RegistriesMatch)
Key == [ureg |-> ureg, areg |-> areg, sreg |-> sreg, hreg |-> hreg,
        usub |-> usub, ucnt |-> ucnt, urep |-> urep, epoch |-> epoch]

\* per transition: the call, its events and return value (functions of the
\* source state and the call)
Emit == PrintT(ToJson([lvl |-> TLCGet("level"), from |-> Key, act |-> call',
                       to |-> Key', ev |-> events', ret |-> ret']))

\* per distinct state (INVARIANT): the expected observables, computed from
\* the listings only; joined with the transitions through Key
DumpState == PrintT(ToJson([key |-> Key, obs |-> Expect]))

(***************************************************************************)
(* Universes used by the configurations                                    *)
(***************************************************************************)
None == {}
OpsU == {"registerUtility", "unregisterUtility", "reinit", "dropcache"}
OpsA == {"registerAdapter", "unregisterAdapter",
         "registerSubscriptionAdapter", "unregisterSubscriptionAdapter",
         "registerHandler", "unregisterHandler", "reinit"}
OpsAll == OpsU \cup OpsA
OpsSH == {"registerSubscriptionAdapter", "unregisterSubscriptionAdapter",
          "registerHandler", "unregisterHandler"}
OpsAS == {"registerAdapter", "unregisterAdapter",
          "registerSubscriptionAdapter", "unregisterSubscriptionAdapter"}

EvT == {TRUE}
EvTF == {TRUE, FALSE}
I0 == {""}
I01 == {"", "x"}
Fac0 == {0}
Fac01 == {0, 1}

\* ---- counter: one provided, three names, equal / identical / unhashable
UKeysNames == {<<1, "">>, <<1, "n">>, <<1, "m">>}
UKeysNamesB == UKeysNames \cup {<<2, "">>}
CompsEq == {1, 2, 3, 4}
\* ---- calls made after a re-initialisation
UKeysTwo == {<<1, "">>, <<1, "n">>}
CompsReinit == {1, 3, 4}
\* ---- provided chain, info, replacement, factory, event=False
UKeysChain == {<<1, "">>, <<1, "n">>, <<2, "">>, <<2, "n">>}
CompsChain == {1, 2, 5}
CompsChainU == {1, 3, 4, 5}
\* ---- everything (simulation)
UKeysAll == {<<p, n>> : p \in {1, 2}, n \in {"", "n", "m"}}
CompsAll == 1..5

AKeysSmall == {<<1, 1, "">>, <<1, 2, "">>, <<2, 1, "">>, <<1, 1, "n">>}
AKeysAll == {<<r, p, n>> : r \in {1, 2}, p \in {1, 2}, n \in {"", "n"}}
SKeysSmall == {<<1, 1>>, <<1, 2>>, <<2, 1>>}
SKeysAll == {<<r, p>> : r \in {1, 2}, p \in {1, 2}}
HKeysAll == {1, 2}
F12 == {1, 3}         \* F1A, F2
F123 == {1, 2, 3}     \* F1A = F1B, F2
=============================================================================
