INIT Init
NEXT Next
CHECK_DEADLOCK FALSE
INVARIANT NoMismatch
