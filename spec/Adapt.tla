------------------------------- MODULE Adapt -------------------------------
(***************************************************************************)
(* C14 -- calling an interface follows the PEP 246 adaptation order.       *)
(*                                                                         *)
(* Two descriptions of  I(obj [, alternate])  and  I.__adapt__(obj) :      *)
(*                                                                         *)
(*  MECHANISM   a step machine transcribed from InterfaceBase.__call__ /   *)
(*              __adapt__ (interface.py) and IB__call__ / IB__adapt__      *)
(*              (_zope_interface_coptimizations.c): one action per code    *)
(*              step, a program counter, the log of external calls made,   *)
(*              the outcome.                                               *)
(*  CONTRACT    Expected(in): a first-success fold over the precedence     *)
(*              list of the property statement, plus the clauses           *)
(*              NoLaterStep, ExceptionsPropagate, CustomReplaces,          *)
(*              RegistryAgrees stated directly over (input, log, outcome). *)
(*                                                                         *)
(* The INPUT of one adaptation is chosen in Init and never changes; TLC    *)
(* walks every input of the finite universe Inputs through the machine.    *)
(* Every terminal state is one implementation test (MC_Adapt dumps it).    *)
(*                                                                         *)
(* Outside the universe (the statement does not decide them, the code's    *)
(* behaviour there is deliberately not judged):                            *)
(*  - a TypeError produced by the *act of calling* __conform__ (unbound    *)
(*    method because obj is a class, wrong signature, C callable): the     *)
(*    code (_call_conform) treats it like a missing __conform__ by looking *)
(*    at the traceback depth.  A TypeError raised *inside the body* of     *)
(*    __conform__ is in the universe ("raisesTE") and must propagate.      *)
(*  - obj.__conform__ being the value None;                                *)
(*  - a custom __adapt__ that is *inherited* from a base interface         *)
(*    (C and Python differ when the sub-interface defines another          *)
(*    interfacemethod: that is a C10 matter);                              *)
(*  - hooks that mutate the hook list while it is being walked.            *)
(***************************************************************************)
EXTENDS Naturals, Sequences, FiniteSets

CONSTANTS
    MaxHooks,   \* longest hook list
    Nesting,    \* BOOLEAN: inputs in which one hook adapts re-entrantly
    Variant     \* "shipped" | defective mechanisms used by the self-test:
                \* "aeSwallow"  AttributeError from the conform BODY is taken
                \*              for a missing attribute          (seeded C14_a)
                \* "truthyHook" hook results tested by truth, not "is not None"
                \*                                               (seeded C14_b)
                \* "skipCustom" the fast path forgets the custom __adapt__

ASSUME MaxHooks \in 0..4 /\ Nesting \in BOOLEAN
ASSUME Variant \in {"shipped", "aeSwallow", "truthyHook", "skipCustom"}

-----------------------------------------------------------------------------
(* Input universe                                                          *)

ConformKinds == {"absent",      \* no __conform__ attribute
                 "attrAE",      \* reading obj.__conform__ raises AttributeError
                 "attrOther",   \* reading obj.__conform__ raises something else
                 "retNone", "retValue",
                 "retFalsy",    \* returns a non-None object that is false
                 "raises",      \* body raises (not Attribute/TypeError)
                 "raisesAE",    \* body raises AttributeError
                 "raisesTE"}    \* body raises TypeError (from its own frame)
HookKinds   == {"none", "value", "falsy", "raises"}
AltKinds    == {"notGiven", "given", "givenNone"}
CustomKinds == {"noCustom",     \* interface without interfacemethod __adapt__
                "none", "value", "falsy", "raises",
                "delegate"}     \* custom __adapt__ = super().__adapt__(obj)
Entries     == {"call",         \* I(obj) / I(obj, alternate)
                "adapt"}        \* I.__adapt__(obj)
Flavours    == {"V", "A", "T"}  \* type raised by raising hooks / custom:
                                \* a plain Exception subclass, AttributeError,
                                \* TypeError.  The contract is indifferent.

HookLists == UNION {[1..n -> HookKinds] : n \in 0..MaxHooks}

SomeoneRaises(hooks, custom) ==
    \/ custom = "raises"
    \/ \E i \in 1..Len(hooks) : hooks[i] = "raises"

(* reg: every hook is the adapter_hook of a real registry whose factory    *)
(* has the prescribed behaviour.  nest = i > 0: hook i, before it answers, *)
(* adapts another object to another interface J with an alternate (for J   *)
(* every hook answers None).                                               *)
Inputs ==
    {in \in [conform : ConformKinds, provided : BOOLEAN, hooks : HookLists,
             alt : AltKinds, custom : CustomKinds, entry : Entries,
             reg : BOOLEAN, exc : Flavours, nest : 0..MaxHooks] :
        \* dimensions that cannot matter are pinned to one value
        /\ in.entry = "adapt" => in.conform = "absent" /\ in.alt = "notGiven"
        /\ in.exc # "V" => SomeoneRaises(in.hooks, in.custom) /\ ~in.reg
        /\ in.reg => Len(in.hooks) >= 1
        /\ in.nest <= Len(in.hooks)
        /\ in.nest > 0 => Nesting /\ ~in.reg /\ in.exc = "V"}

-----------------------------------------------------------------------------
(* Results and names.  Everything is a string so that TLC can compare.     *)

Miss     == [k |-> "miss", v |-> "-"]       \* "returned None, go on"
Hit(v)   == [k |-> "hit",  v |-> v]
Exc(v)   == [k |-> "exc",  v |-> v]
Results  == [k : {"miss", "hit", "exc"}, v : STRING]

HookName == <<"h1", "h2", "h3", "h4">>   \* log entry: hook i called for I
InnerName == <<"j1", "j2", "j3", "j4">>  \* log entry: hook i called for J
HookVal  == <<"v1", "v2", "v3", "v4">>   \* value object returned by hook i
HookFal  == <<"f1", "f2", "f3", "f4">>   \* falsy object returned by hook i
HookExc  == <<"x1", "x2", "x3", "x4">>   \* exception instance of hook i

(* what one external call answers, as a function of the input only         *)
ConformRes(in) ==
    CASE in.conform = "retNone"  -> Miss
      [] in.conform = "retValue" -> Hit("conform")
      [] in.conform = "retFalsy" -> Hit("conformF")
      [] in.conform = "raises"   -> Exc("conformV")
      [] in.conform = "raisesAE" -> Exc("conformA")
      [] in.conform = "raisesTE" -> Exc("conformT")
      [] OTHER                   -> Miss      \* never called
CustomRes(in) ==
    CASE in.custom = "value"  -> Hit("custom")
      [] in.custom = "falsy"  -> Hit("customF")
      [] in.custom = "raises" -> Exc("customX")
      [] OTHER                -> Miss         \* none; delegate: see stages
HookRes(hooks, i) ==
    CASE hooks[i] = "value"  -> Hit(HookVal[i])
      [] hooks[i] = "falsy"  -> Hit(HookFal[i])
      [] hooks[i] = "raises" -> Exc(HookExc[i])
      [] OTHER               -> Miss
AltRes(in) ==
    CASE in.alt = "given"     -> Hit("alt")
      [] in.alt = "givenNone" -> Hit("None")
      [] OTHER                -> Exc("CouldNotAdapt")
          \* TypeError('Could not adapt', obj, I)

(* registry.queryAdapter(obj, I) of the registry behind hook i             *)
Query(in, i) == IF HookRes(in.hooks, i) = Miss THEN Hit("None")
                ELSE HookRes(in.hooks, i)

(* the re-entrant adaptation performed by the nesting hook                 *)
InnerInput(in) ==
    [conform |-> "absent", provided |-> FALSE,
     hooks |-> [i \in 1..Len(in.hooks) |-> "none"], alt |-> "given",
     custom |-> "noCustom", entry |-> "call", reg |-> FALSE, exc |-> "V",
     nest |-> 0]
InnerCalls(in) == [i \in 1..Len(in.hooks) |-> InnerName[i]] \o <<"nok">>

-----------------------------------------------------------------------------
(* CONTRACT: the precedence list of the statement as a sequence of stages, *)
(* each with the external calls it makes and its result; the expected      *)
(* behaviour is the first stage that does not miss, and the calls of the   *)
(* stages up to it.                                                        *)

Stage(calls, res) == [calls |-> calls, res |-> res]

ConformStage(in) ==
    CASE in.conform \in {"absent", "attrAE"} -> Stage(<<>>, Miss)
      [] in.conform = "attrOther"            -> Stage(<<>>, Exc("attrOther"))
      [] OTHER                     -> Stage(<<"conform">>, ConformRes(in))

ProvidedStage(in) == Stage(<<>>, IF in.provided THEN Hit("obj") ELSE Miss)

HookStage(in, i) ==
    Stage(<<HookName[i]>> \o (IF in.nest = i THEN InnerCalls(in) ELSE <<>>),
          HookRes(in.hooks, i))

DefaultAdaptStages(in) ==
    <<ProvidedStage(in)>> \o [i \in 1..Len(in.hooks) |-> HookStage(in, i)]

AdaptStages(in) ==
    CASE in.custom = "noCustom" -> DefaultAdaptStages(in)
      [] in.custom = "delegate" -> <<Stage(<<"custom">>, Miss)>>
                                      \o DefaultAdaptStages(in)
      [] OTHER                  -> <<Stage(<<"custom">>, CustomRes(in))>>

Stages(in) ==
    IF in.entry = "call"
    THEN <<ConformStage(in)>> \o AdaptStages(in) \o <<Stage(<<>>, AltRes(in))>>
    ELSE AdaptStages(in) \o <<Stage(<<>>, Hit("None"))>>

Decisive(st) == CHOOSE d \in 1..Len(st) :
                    /\ st[d].res # Miss
                    /\ \A j \in 1..(d - 1) : st[j].res = Miss

RECURSIVE CallsUpTo(_, _)
CallsUpTo(st, d) == IF d = 0 THEN <<>>
                    ELSE CallsUpTo(st, d - 1) \o st[d].calls

Expected(in) ==
    LET st == Stages(in)
        d  == Decisive(st)
    IN  [out |-> st[d].res, log |-> CallsUpTo(st, d),
         \* precedence was really exercised: an earlier stage called out and
         \* missed, or a later stage would have produced something
         nt  |-> \/ \E j \in 1..(d - 1) : st[j].calls # <<>>
                 \/ \E j \in (d + 1)..(Len(st) - 1) : st[j].res # Miss]

-----------------------------------------------------------------------------
(* MECHANISM                                                               *)

VARIABLES
    in,        \* the input (constant along a behaviour)
    pc,        \* GetConform CallConform Adapt Custom Provided Hook HookRet
               \* AfterAdapt Alternate InnerDone Done
    hi,        \* index of the hook being called
    ares,      \* what __adapt__ answered (Miss = None)
    log,       \* external calls made so far
    stack,     \* saved frames of the outer adaptation while a hook adapts
    ires,      \* result of the inner adaptation
    outcome    \* Miss while running, then Hit(value) / Exc(exception)

vars == <<in, pc, hi, ares, log, stack, ires, outcome>>

Inner == stack # <<>>
Cur   == IF Inner THEN InnerInput(in) ELSE in    \* input of the running frame

StartPc(e) == IF e = "call" THEN "GetConform" ELSE "Adapt"

InitFrom(i) ==
    /\ in = i
    /\ pc = StartPc(i.entry)
    /\ hi = 0
    /\ ares = Miss
    /\ log = <<>>
    /\ stack = <<>>
    /\ ires = Miss
    /\ outcome = Miss

(* return r from the running frame *)
Finish(r) ==
    IF Inner
    THEN /\ ires' = r
         /\ pc' = "InnerDone"
         /\ UNCHANGED <<outcome, stack>>
    ELSE /\ outcome' = r
         /\ pc' = "Done"
         /\ UNCHANGED <<ires, stack>>

Goto(p) == pc' = p /\ UNCHANGED <<outcome, stack, ires>>

(* conform = obj.__conform__  (AttributeError -> None, others propagate)   *)
GetConform ==
    /\ pc = "GetConform"
    /\ UNCHANGED <<in, hi, ares, log>>
    /\ CASE Cur.conform \in {"absent", "attrAE"} -> Goto("Adapt")
         [] Cur.conform = "attrOther"            -> Finish(Exc("attrOther"))
         [] OTHER                                -> Goto("CallConform")

(* adapter = self._call_conform(conform)                                   *)
CallConform ==
    /\ pc = "CallConform"
    /\ log' = Append(log, "conform")
    /\ UNCHANGED <<in, hi, ares>>
    /\ LET r == ConformRes(Cur) IN
       IF r = Miss \/ (Variant = "aeSwallow" /\ Cur.conform = "raisesAE")
       THEN Goto("Adapt")
       ELSE Finish(r)

(* self.__adapt__(obj): Python resolves the method on the interface's      *)
(* class; C tests the _CALL_CUSTOM_ADAPT flag and otherwise runs           *)
(* IB__adapt__ directly.                                                   *)
Adapt ==
    /\ pc = "Adapt"
    /\ UNCHANGED <<in, hi, ares, log>>
    /\ IF Cur.custom # "noCustom" /\
          ~(Variant = "skipCustom" /\ Cur.entry = "call")
       THEN Goto("Custom")
       ELSE Goto("Provided")

Custom ==
    /\ pc = "Custom"
    /\ log' = Append(log, "custom")
    /\ UNCHANGED <<in, hi>>
    /\ IF Cur.custom = "delegate"
       THEN Goto("Provided") /\ UNCHANGED ares
       ELSE LET r == CustomRes(Cur) IN
            IF r.k = "exc" THEN Finish(r) /\ UNCHANGED ares
            ELSE ares' = r /\ Goto("AfterAdapt")

(* if self.providedBy(obj): return obj                                     *)
Provided ==
    /\ pc = "Provided"
    /\ UNCHANGED <<in, log>>
    /\ IF Cur.provided
       THEN ares' = Hit("obj") /\ hi' = hi /\ Goto("AfterAdapt")
       ELSE ares' = ares /\ hi' = 1 /\ Goto("Hook")

(* for hook in adapter_hooks: adapter = hook(self, obj)                    *)
Hook ==
    /\ pc = "Hook"
    /\ UNCHANGED <<in, outcome, ires>>
    /\ IF hi > Len(Cur.hooks)
       THEN /\ ares' = Miss
            /\ pc' = "AfterAdapt"
            /\ UNCHANGED <<hi, log, stack>>
       ELSE /\ log' = Append(log, IF Inner THEN InnerName[hi]
                                  ELSE HookName[hi])
            /\ ares' = ares
            /\ IF ~Inner /\ in.nest = hi
               THEN \* the hook adapts re-entrantly before it answers
                    /\ stack' = <<[hi |-> hi]>>
                    /\ pc' = "GetConform"
                    /\ hi' = 0
               ELSE /\ pc' = "HookRet"
                    /\ UNCHANGED <<hi, stack>>

(* the inner I-call returned to the hook that made it *)
InnerDone ==
    /\ pc = "InnerDone"
    /\ log' = Append(log, IF ires = Hit("alt") THEN "nok" ELSE "nbad")
    /\ hi' = stack[1].hi
    /\ stack' = <<>>
    /\ pc' = "HookRet"
    /\ UNCHANGED <<in, ares, ires, outcome>>

(* if adapter is not None: return adapter                                  *)
HookRet ==
    /\ pc = "HookRet"
    /\ UNCHANGED <<in, log>>
    /\ LET r == HookRes(Cur.hooks, hi) IN
       CASE r.k = "exc" -> Finish(r) /\ UNCHANGED <<hi, ares>>
         [] r = Miss \/ (Variant = "truthyHook" /\ Cur.hooks[hi] = "falsy")
              -> hi' = hi + 1 /\ ares' = ares /\ Goto("Hook")
         [] OTHER -> ares' = r /\ hi' = hi /\ Goto("AfterAdapt")

(* back in __call__ (or at the end of a direct __adapt__ call)             *)
AfterAdapt ==
    /\ pc = "AfterAdapt"
    /\ UNCHANGED <<in, hi, ares, log>>
    /\ IF Cur.entry = "adapt"
       THEN Finish(IF ares = Miss THEN Hit("None") ELSE ares)
       ELSE IF ares # Miss THEN Finish(ares) ELSE Goto("Alternate")

(* if alternate is not _marker: return alternate; raise TypeError(...)     *)
Alternate ==
    /\ pc = "Alternate"
    /\ UNCHANGED <<in, hi, ares, log>>
    /\ Finish(AltRes(Cur))

Next == \/ GetConform \/ CallConform \/ Adapt \/ Custom \/ Provided
        \/ Hook \/ InnerDone \/ HookRet \/ AfterAdapt \/ Alternate

Init == \E i \in Inputs : InitFrom(i)
Spec == Init /\ [][Next]_vars

-----------------------------------------------------------------------------
(* PROPERTIES                                                              *)

Pcs == {"GetConform", "CallConform", "Adapt", "Custom", "Provided", "Hook",
        "HookRet", "AfterAdapt", "Alternate", "InnerDone", "Done"}

TypeOK ==
    /\ in \in Inputs
    /\ pc \in Pcs
    /\ hi \in 0..(MaxHooks + 1)
    /\ ares \in Results /\ ires \in Results /\ outcome \in Results
    /\ log \in Seq(STRING)
    /\ Len(stack) <= 1
    /\ (outcome # Miss) <=> (pc = "Done")

IsPrefix(s, t) == Len(s) <= Len(t) /\ \A k \in 1..Len(s) : s[k] = t[k]

(* mechanism = contract: the outcome and the complete call log *)
Agreement ==
    pc = "Done" => /\ outcome = Expected(in).out
                   /\ log = Expected(in).log

(* ... and on the way there it never makes a call the contract excludes *)
LogWithinContract == IsPrefix(log, Expected(in).log)

(* The clauses of the statement, each stated directly over input, log and  *)
(* outcome (not through the fold).                                         *)

InnerNames == {InnerName[i] : i \in 1..4} \cup {"nok", "nbad"}
OuterLog == SelectSeq(log, LAMBDA n : n \notin InnerNames)
HookIdx(n) == CHOOSE i \in 1..4 : HookName[i] = n
IsHookName(n) == \E i \in 1..4 : HookName[i] = n

(* what the logged external call answered *)
CallRes(n) ==
    CASE n = "conform" -> ConformRes(in)
      [] n = "custom"  -> CustomRes(in)
      [] IsHookName(n) -> HookRes(in.hooks, HookIdx(n))
      [] OTHER         -> Miss

(* "Later steps are never executed once an earlier one succeeds": every    *)
(* call but the last one answered None; a call that answered decides the   *)
(* outcome; once provided, no hook runs; nothing runs twice.                *)
NoLaterStep ==
    /\ \A k \in 1..(Len(OuterLog) - 1) : CallRes(OuterLog[k]) = Miss
    /\ \A k, l \in 1..Len(OuterLog) : k # l => OuterLog[k] # OuterLog[l]
    /\ pc = "Done" /\ OuterLog # <<>> /\ CallRes(OuterLog[Len(OuterLog)]) # Miss
          => outcome = CallRes(OuterLog[Len(OuterLog)])
    /\ in.provided /\ in.custom = "noCustom"
          => \A k \in 1..Len(log) : ~IsHookName(log[k])
    /\ pc = "Done" => \/ log = <<>>
                      \/ log[Len(log)] \notin InnerNames
                      \/ log[Len(log)] = "nok"

(* precedence: conform, then custom/provided, then the hooks in list order *)
Rank(n) == CASE n = "conform" -> 0 [] n = "custom" -> 1
             [] OTHER -> 1 + HookIdx(n)
Ordered ==
    \A k, l \in 1..Len(OuterLog) : k < l => Rank(OuterLog[k]) < Rank(OuterLog[l])

(* "exceptions other than a missing __conform__ attribute propagate        *)
(* unchanged" -- and no exception is invented                               *)
ExceptionsPropagate ==
    pc = "Done" =>
      /\ \A k \in 1..Len(OuterLog) :
            CallRes(OuterLog[k]).k = "exc" => outcome = CallRes(OuterLog[k])
      /\ in.entry = "call" /\ in.conform = "attrOther"
            => outcome = Exc("attrOther") /\ log = <<>>
      /\ in.entry = "call" /\ in.conform = "attrAE"
            => outcome # Exc("attrAE")
      /\ outcome.k = "exc" =>
            \/ outcome = Exc("CouldNotAdapt") /\ in.alt = "notGiven"
                                              /\ in.entry = "call"
            \/ outcome = Exc("attrOther") /\ in.conform = "attrOther"
            \/ \E k \in 1..Len(OuterLog) : CallRes(OuterLog[k]) = outcome

(* "a custom __adapt__ defined via interfacemethod replaces the            *)
(* provided-check and hooks"                                                *)
CustomReplaces ==
    pc = "Done" /\ in.custom \in {"none", "value", "falsy", "raises"} =>
      /\ \A k \in 1..Len(log) : ~IsHookName(log[k])
      /\ outcome # Hit("obj")
      /\ ConformStage(in).res = Miss =>
            /\ "custom" = log[Len(log)]
            /\ outcome = IF CustomRes(in) # Miss THEN CustomRes(in)
                         ELSE IF in.entry = "call" THEN AltRes(in)
                         ELSE Hit("None")

(* "With a registry's adapter_hook installed the result equals             *)
(* registry.queryAdapter(obj, I)": when the hooks decide, the result is    *)
(* the first registry answer that is not None; when conform / provided /   *)
(* custom do not decide and no registry answers, the alternate.            *)
RegistryAgrees ==
    pc = "Done" /\ in.reg /\ ConformStage(in).res = Miss /\ ~in.provided
                /\ in.custom \in {"noCustom", "delegate"} =>
       LET ans == {i \in 1..Len(in.hooks) : Query(in, i) # Hit("None")} IN
       IF ans = {} THEN outcome = IF in.entry = "call" THEN AltRes(in)
                                  ELSE Hit("None")
       ELSE outcome = Query(in, CHOOSE i \in ans : \A j \in ans : i <= j)

=============================================================================
