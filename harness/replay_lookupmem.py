"""Child for C11.

mode "schedules": replays LookupMem.tla single-thread schedules (entry point
x call-out x foreign action) on real lookup objects: injects the foreign
code at exactly that call-out, audits who owns the cache container across
it, compares outcome / answer / freshness with the spec's terminal state,
and repeats each schedule to detect reference leaks.

mode "threads": lookup threads against a mutator thread for a while; logs
(inv, ans, ret) per call (validated by TLC afterwards).  A crash of this
process is the verdict for memory safety.
"""
import childlib
impl = childlib.boot()

import gc
import sys
import threading
import time

from zope.interface import Interface
from zope.interface.adapter import (AdapterLookup, AdapterRegistry,
                                    VerifyingAdapterLookup,
                                    VerifyingAdapterRegistry)
from zope.interface.declarations import Declaration
from zope.interface.interface import InterfaceClass

job = childlib.job()
mismatches = []
evaluations = 0
audited = 0
unaudited = 0


def mism(ctx, what, expected, got):
    if len(mismatches) < 60:
        mismatches.append({'ctx': ctx, 'what': what, 'expected': expected,
                           'got': got, 'impl': impl, 'case_idx': childlib.CASE[0]})


class ForeignError(Exception):
    pass


class Val:
    """registered value of data version v; also the adapter factory"""

    def __init__(self, v, world):
        self.v = v
        self.world = world

    def __call__(self, *objs):
        self.world.callout('F')
        return self


class LazySeq:
    def __init__(self, world, items):
        self.world = world
        self.items = items

    def __iter__(self):
        self.world.callout('A')
        return iter(self.items)

    def __len__(self):
        return len(self.items)


class Frame:
    def __init__(self, plan, top):
        self.plan = dict(plan)
        self.phase = 'pre'
        self.fired = set()
        self.top = top


class World:
    serial = 0

    def __init__(self, entry, verifying):
        World.serial += 1
        w = self
        mod = 'lmworld%d' % World.serial
        self.entry = entry
        self.verifying = verifying
        self.IR = InterfaceClass('IR', (Interface,), __module__=mod)
        self.IP = InterfaceClass('IP', (Interface,), __module__=mod)
        self.frames = []
        self.audits = []
        self.ver = 0
        self.busy = False

        class HSpec(Declaration):
            def __hash__(self):
                f = w.frames[-1] if w.frames else None
                if f is not None:
                    w.callout('B' if f.phase == 'pre' else
                              ('D' if f.phase == 'post' else None))
                return id(self) >> 4

            def __eq__(self, other):
                return self is other

            def __ne__(self, other):
                return self is not other

        self.key = HSpec(self.IR)

        self.in_changed = 0

        def wrap(base):
            class L(base):
                def changed(self, originally_changed):
                    # reads of base._generation made from inside changed()
                    # are call-out E2, the comparison read of _verify is E
                    w.in_changed += 1
                    try:
                        return super().changed(originally_changed)
                    finally:
                        w.in_changed -= 1

                def _uncached_lookup(self, required, provided, name=''):
                    return w.uncached(
                        super()._uncached_lookup, required, provided, name)

                def _uncached_lookupAll(self, required, provided):
                    return w.uncached(
                        super()._uncached_lookupAll, required, provided)

                def _uncached_subscriptions(self, required, provided):
                    return w.uncached(
                        super()._uncached_subscriptions, required, provided)
            return L

        if verifying:
            class BaseReg(VerifyingAdapterRegistry):
                LookupClass = VerifyingAdapterLookup
                _gen = 0

                @property
                def _generation(self):
                    w.callout('E2' if w.in_changed else 'E')
                    return self._gen

                @_generation.setter
                def _generation(self, v):
                    self._gen = v

            class Reg(VerifyingAdapterRegistry):
                LookupClass = wrap(VerifyingAdapterLookup)
            self.base = BaseReg()
            self.reg = Reg((self.base,))
            self.target = self.base
        else:
            class Reg(AdapterRegistry):
                LookupClass = wrap(AdapterLookup)
            self.reg = Reg()
            self.base = None
            self.target = self.reg
        self.obj = type('Ob', (object,), {})()

        class PB:
            def __get__(self, inst, cls):
                if inst is None:
                    return self
                w.callout('G')
                return w.key
        type(self.obj).__providedBy__ = PB()
        self.mutate()
        if verifying:
            # start with a snapshot of the generations that is up to date
            # (the model's initial state; "start_stale" cases mutate again)
            self.reg._v_lookup.changed(None)

    # -- data
    def mutate(self):
        self.ver += 1
        v = Val(self.ver, self)
        self.busy = True        # call-outs inside the mutator are not ours
        try:
            if self.entry == 'subs':
                self.target.subscribe([self.IR], self.IP, v)
            else:
                self.target.register([self.IR], self.IP, '', v)
        finally:
            self.busy = False

    # -- instrumentation
    def uncached(self, sup, *args):
        f = self.frames[-1] if self.frames else None
        if f is not None:
            f.phase = 'in'
        self.callout('C1')
        try:
            r = sup(*args)
            # the answer is computed, nothing is stored yet
            self.callout('C3')
            return r
        finally:
            if f is not None:
                f.phase = 'post'

    def callout(self, point):
        if point is None or not self.frames or self.busy:
            return
        f = self.frames[-1]
        if point in f.fired:
            return
        act = f.plan.get(point, 'none')
        f.fired.add(point)
        if act == 'none':
            return
        inner = None
        if f.top and point in ('B', 'C1', 'C3', 'D', 'E') and 'mutate' in act \
                and not self.in_changed:
            inner = self.find_container(point)
        if act == 'raise':
            raise ForeignError(point)
        if act == 'mutate':
            self.mutate()
        elif act == 'nested':
            self.nested()
        elif act == 'nested_mutate':
            self.nested()
            self.mutate()
        elif act == 'mutate_nested':
            self.mutate()
            self.nested()
        if inner is not None:
            rc = sys.getrefcount(inner)
            # ours + getrefcount's argument = 2  -> nobody else holds it
            self.audits.append((point, act, rc))
        del inner

    def nested(self):
        self.frames.append(Frame({}, False))
        try:
            # same cache as the interrupted call
            if self.entry == 'all':
                self.reg.lookupAll([self.key], self.IP)
            elif self.entry == 'subs':
                self.reg.subscriptions([self.key], self.IP)
            else:
                self.reg.lookup([self.key], self.IP, '')
        finally:
            self.frames.pop()

    def find_container(self, point):
        """the container the frame is working on at this call-out: the inner
        cache dict, or (E) the _verify_ro sequence"""
        lk = self.reg._v_lookup
        try:
            if point == 'E':
                if hasattr(lk, '__dict__') and '_verify_ro' in lk.__dict__:
                    return lk.__dict__['_verify_ro']
                cands = [x for x in gc.get_referents(lk)
                         if isinstance(x, tuple) and x and
                         all(hasattr(r, '_generation') for r in x)]
                return cands[0] if len(cands) == 1 else None
            if hasattr(lk, '__dict__') and '_cache' in lk.__dict__:
                roots = {'lookup': lk._cache, 'lookup1': lk._cache,
                         'hook': lk._cache, 'all': lk._mcache,
                         'subs': lk._scache}
                root = roots[self.entry]
                d = root.get(self.IP)
                return d
            cands = [x for x in gc.get_referents(lk)
                     if isinstance(x, dict) and self.IP in x and
                     isinstance(x[self.IP], dict)]
            if len(cands) != 1:
                return None
            return cands[0][self.IP]
        except Exception:
            return None

    # -- the call
    def call(self, plan):
        self.frames.append(Frame(plan, True))
        try:
            e = self.entry
            if e == 'lookup':
                r = self.reg.lookup(LazySeq(self, [self.key]), self.IP, '')
            elif e == 'lookup1':
                r = self.reg.lookup1(self.key, self.IP, '')
            elif e == 'hook':
                r = self.reg.adapter_hook(self.IP, self.obj, '')
            elif e == 'all':
                r = dict(self.reg.lookupAll(LazySeq(self, [self.key]),
                                            self.IP)).get('')
            elif e == 'subs':
                r = self.reg.subscriptions(LazySeq(self, [self.key]),
                                           self.IP)
                r = r[-1] if r else None
            return ('ok', r.v if isinstance(r, Val) else repr(r))
        except ForeignError:
            return ('exc', None)
        finally:
            self.frames.pop()

    def fresh_answer(self):
        """the next lookup of the SAME key through the same cache (no frame
        is active: the call-outs are inert), and of another key"""
        out = []
        for key in (self.key, self.IR):
            if self.entry == 'subs':
                r = self.reg.subscriptions([key], self.IP)
                out.append(r[-1].v if r else None)
            elif self.entry == 'all':
                r = dict(self.reg.lookupAll([key], self.IP)).get('')
                out.append(r.v if isinstance(r, Val) else repr(r))
            else:
                r = self.reg.lookup([key], self.IP, '')
                out.append(r.v if isinstance(r, Val) else repr(r))
        return out[0] if out[0] == out[1] else out


SPEC_ENTRY = {'subs': 'all'}


def run_schedule(case):
    global evaluations, audited, unaudited
    ctx = {'entry': case['entry'], 'verifying': case['verifying'],
           'plan': {k: v for k, v in case['plan'].items() if v != 'none'}}
    w = World(case['entry'], case['verifying'])
    if case.get('start_stale'):
        w.mutate()      # completed before the call: the generations moved
        ctx['start_stale'] = True
    evaluations += 1
    kind, ans = w.call(case['plan'])
    exp = case['expect']
    if case['plan'].get('B') == 'raise':
        # an exception raised while the cache dictionary hashes the key is
        # swallowed by the C implementation (PyDict_GetItem) and propagated
        # by the Python one; C11 does not decide which: only memory safety,
        # freshness and leaks are checked for these schedules
        pass
    elif exp['exc'] != (kind == 'exc'):
        mism(ctx, 'outcome', 'exception' if exp['exc'] else 'answer',
             kind)
    elif not exp['exc'] and not (exp['inv'] <= ans <= exp['ret']
                                 if isinstance(ans, int) else False):
        # correct either before or after the interrupting mutation(s)
        mism(ctx, 'answer (data version)',
             'between %d and %d' % (exp['inv'], exp['ret']), ans)
    # no answer computed before a mutation survives in the cache
    fa = w.fresh_answer()
    if fa != w.ver:
        mism(ctx, 'next lookup after the call (must be the current data '
             'version)', w.ver, fa)
    if w.ver != exp['ver']:
        mism(ctx, 'number of mutations performed', exp['ver'], w.ver)
    for (point, act, rc) in w.audits:
        audited += 1
        if rc < 3:
            mism(ctx, 'ownership audit at call-out %s (%s): references to '
                 'the container the frame works on, after the lookup '
                 'object released it' % (point, act),
                 '>= 3 (ours, getrefcount argument, the frame)', rc)
    if any(('mutate' in v) for k, v in case['plan'].items()
           if k in ('B', 'C1', 'C3', 'D', 'E')) and not w.audits \
            and kind != 'exc':
        unaudited += 1
    return w


def leak_check(case, n=300):
    """the same schedule n times: object count must stay flat"""
    global evaluations
    ctx = {'entry': case['entry'], 'verifying': case['verifying'],
           'plan': {k: v for k, v in case['plan'].items() if v != 'none'},
           'repeat': n}
    w = World(case['entry'], case['verifying'])
    plan = case['plan']
    for _ in range(5):
        w.call(plan)
    gc.collect()
    before = len(gc.get_objects())
    vals_before = sum(1 for o in gc.get_objects() if isinstance(o, Val))
    for _ in range(n):
        w.call(plan)
    gc.collect()
    after = len(gc.get_objects())
    vals_after = sum(1 for o in gc.get_objects() if isinstance(o, Val))
    evaluations += 1
    muts = sum(1 for v in plan.values() if 'mutate' in v)
    # a subscription history legitimately grows; registrations replace
    allowed = (n * muts * 6 + 50) if case['entry'] == 'subs' else 50
    if after - before > allowed:
        mism(ctx, 'object count growth over %d repetitions' % n,
             '<= %d' % allowed, after - before)
    if case['entry'] != 'subs' and vals_after - vals_before > 2:
        mism(ctx, 'registered values kept alive after being replaced',
             '<= 2', vals_after - vals_before)


def run_threads(spec):
    """real threads; returns the call log"""
    sys.setswitchinterval(1e-6)
    verifying = spec['verifying']
    mod = 'lmthreads'
    IR = InterfaceClass('IR', (Interface,), __module__=mod)
    IP = InterfaceClass('IP', (Interface,), __module__=mod)
    cls = VerifyingAdapterRegistry if verifying else AdapterRegistry
    base = cls()
    reg = cls((base,))
    target = base if spec.get('mutate_base', True) else reg
    state = {'begun': 1, 'done': 1, 'stop': False}
    target.register([IR], IP, '', 1)
    reg.subscribe([IR], IP, 'keep')
    log = []
    errors = []

    def looker(kind):
        mylog = []
        while not state['stop']:
            inv = state['done']
            try:
                if kind == 0:
                    a = reg.lookup([IR], IP, '')
                elif kind == 1:
                    a = reg.lookup1(IR, IP, '')
                elif kind == 2:
                    a = dict(reg.lookupAll([IR], IP)).get('')
                else:
                    s = reg.subscriptions([IR], IP)
                    a = reg.lookup([IR], IP, '') if s else None
                ret = state['begun']
                mylog.append((inv, a, ret, 0))
            except Exception as e:
                mylog.append((inv, 0, state['begun'], 1))
                errors.append('%s: %s' % (type(e).__name__, e))
            if len(mylog) > 20000:
                del mylog[::2]
        log.extend(mylog)

    def mutator():
        try:
            while not state['stop']:
                v = state['begun'] + 1
                state['begun'] = v
                target.register([IR], IP, '', v)
                state['done'] = v
                if spec.get('subs', True) and v % 3 == 0:
                    reg.subscribe([IP], IR, v)
                    reg.unsubscribe([IP], IR, v)
        except Exception as e:
            state['mutator_error'] = '%s: %s' % (type(e).__name__, e)

    nl = spec.get('lookers', 3)
    ts = [threading.Thread(target=looker, args=(i % 4,)) for i in range(nl)]
    if spec.get('mutator', True):
        ts.append(threading.Thread(target=mutator))
    for t in ts:
        t.start()
    time.sleep(spec['seconds'])
    state['stop'] = True
    for t in ts:
        t.join()
    return {'log': log[:spec.get('maxlog', 4000)], 'calls': len(log),
            'errors': errors[:10], 'nerrors': len(errors),
            'mutator_error': state.get('mutator_error'),
            'mutations': state['done']}


if job['mode'] == 'schedules':
    for childlib.CASE[0], case in enumerate(job['cases']):
        try:
            run_schedule(case)
            if job.get('leaks') and case.get('leak'):
                leak_check(case)
        except Exception as e:
            import traceback
            tb = traceback.format_exc().strip().split('\n')
            mism({'entry': case['entry'], 'plan': case['plan']},
                 'unexpected exception', 'none',
                 '%s: %s | %s' % (type(e).__name__, e, ' / '.join(tb[-5:])))
    childlib.done({'evaluations': evaluations, 'mismatches': mismatches,
                   'audited': audited, 'unaudited': unaudited})
else:
    childlib.done(run_threads(job['spec']))
