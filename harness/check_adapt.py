"""C14: Adapt.tla checked by TLC over the whole input grid; every terminal
state (input, expected outcome, expected call log, expected queryAdapter
answers) replayed into InterfaceBase.__call__ / __adapt__ of both
implementations.

  python check_adapt.py C14 quick|thorough
  python check_adapt.py C14 quick --replay replays/C14-<hash>.json
                                         (re-executes the stored case, whose
                                          expected values are in the file,
                                          against a fresh build; no TLC)
  python check_adapt.py C14 selftest     (the defective Variants of the spec
                                          must trip their clause in TLC)
"""
import json
import os
import sys

from common import (one_case, VERIF, Build, MachineryError, Verdict, make_cfg, run_children,
                    run_tlc, shard, tla_bool, NCPU)

INVARIANTS = ['TypeOK', 'Agreement', 'LogWithinContract', 'NoLaterStep',
              'Ordered', 'ExceptionsPropagate', 'CustomReplaces',
              'RegistryAgrees']

TIERS = {
    # hook lists up to 3 over {none, value, falsy, raises}, one hook may
    # adapt re-entrantly
    'quick': {'MaxHooks': 3, 'Nesting': True},
    # hook lists up to 4, and one hook adapting re-entrantly
    'thorough': {'MaxHooks': 4, 'Nesting': True},
}

# defective mechanism -> the clause of the statement it must violate
SELFTEST = [('aeSwallow', 'ExceptionsPropagate'),
            ('truthyHook', 'NoLaterStep'),
            ('skipCustom', 'CustomReplaces'),
            ('aeSwallow', 'Agreement'),
            ('truthyHook', 'RegistryAgrees')]


def tlc_cases(build, v, consts, name):
    cfg = make_cfg(build.dir, 'adapt', dict(consts, Variant='"shipped"'),
                   invariants=INVARIANTS + ['Dump'])
    res = run_tlc('MC_Adapt', cfg, scratch=build.dir)
    v.add_tlc(res, name)
    if res.violated:
        raise MachineryError(
            'model-level violation of %s in %s (the specification of the '
            'mechanism does not satisfy the contract):\n%s'
            % (res.violated, name, '\n'.join(res.trace[:60])))
    n = [r['ninputs'] for r in res.lines if 'ninputs' in r]
    cases = [r for r in res.lines if 'in' in r]
    if len(n) != 1:
        raise MachineryError('universe size not printed by MC_Adapt')
    keys = set(json.dumps(c['in'], sort_keys=True) for c in cases)
    if len(cases) != n[0] or len(keys) != n[0]:
        raise MachineryError('dump incomplete: %d terminal states (%d '
                             'distinct inputs) for a universe of %d inputs'
                             % (len(cases), len(keys), n[0]))
    return cases


def sig(pid, m):
    return '%s %s %s expected=%s got=%s how=%s input=%s' % (
        pid, m['impl'], m['what'], json.dumps(m['expected']),
        json.dumps(m['got']), m['how'],
        json.dumps(m['ctx'], sort_keys=True))


def main(pid, tier):
    v = Verdict(pid, tier)
    consts = TIERS[tier]
    v.cov['rule'] = (
        'case = one terminal state of MC_Adapt = one input of the grid '
        '(conform x provided x hook list x alternate x custom __adapt__ x '
        'entry point x plain/registry hooks x exception flavour x nesting '
        'hook); non-trivial = the precedence order was exercised: a stage '
        'before the deciding one called out and answered None, or a stage '
        'after it would have produced a result (computed by the spec, field '
        'nt); evaluations = outcome, call-log and queryAdapter comparisons')
    v.assumptions = [
        'finite grid: hook lists of length <= %d over {None, value, falsy '
        'value, raises}' % consts['MaxHooks'],
        'outside the universe (not decided by the statement, not judged): '
        'TypeError produced by the act of calling __conform__ (unbound '
        'method / wrong signature / C callable), which _call_conform treats '
        'as a missing __conform__; obj.__conform__ = None; a custom '
        '__adapt__ inherited from a base interface; hooks mutating '
        'adapter_hooks while it is walked; providedBy() itself raising',
        'sequential; adapter_hooks is process-global and restored after '
        'every execution',
        'TLC, CommunityModules Json, harness/replay_adapt.py world builder '
        'trusted']
    with Build() as build:
        name = 'MC_Adapt MaxHooks=%d Nesting=%s' % (consts['MaxHooks'],
                                                     consts['Nesting'])
        cases = tlc_cases(build, v, {
            'MaxHooks': consts['MaxHooks'],
            'Nesting': tla_bool(consts['Nesting'])}, name)
        v.cov['distinct_nontrivial'] = sum(1 for c in cases if c['nt'])
        v.notes['cases'] = len(cases)
        v.notes['cases_by_outcome'] = {}
        for c in cases:
            k = c['out']['k'] + ':' + (
                'hook' if c['out']['v'][0] in 'vfx' and
                c['out']['v'][1:].isdigit() else c['out']['v'])
            v.notes['cases_by_outcome'][k] = \
                v.notes['cases_by_outcome'].get(k, 0) + 1
        jobs = []
        for impl in ('c', 'py'):
            for sh in shard(cases, max(1, NCPU // 2)):
                jobs.append((impl, {'cases': sh}))
        replayed = 0
        for (impl, job), r in zip(jobs, run_children(build,
                                                     'replay_adapt.py',
                                                     jobs)):
            if 'crash' in r:
                v.violation('%s %s replay crashed with signal %s' % (
                    pid, impl, r['crash']), r)
                continue
            if r['cases'] != len(job['cases']):
                raise MachineryError('child replayed %d of %d cases' % (
                    r['cases'], len(job['cases'])))
            replayed += r['cases']
            v.cov['evaluations'] += r['evaluations']
            v.notes['executions'] = v.notes.get('executions', 0) + \
                r['executions']
            for m in r['mismatches']:
                v.violation(sig(pid, m), m, one_case('replay_adapt.py', impl,
                                                     job, m))
        v.cov['traces_validated_against_impl'] = replayed
        v.cov['exhaustive'] = replayed == 2 * len(cases)
        step = max(1, len(cases) // 5)
        for c in cases[::step]:
            v.sample({'in': c['in'], 'out': c['out'], 'log': c['log'],
                      'query': c['query']})
    return v.finish()


def replay(pid, tier, path):
    if not os.path.exists(path):
        path = os.path.join(VERIF, path)
    with open(path) as f:
        case = json.load(f)['record']['case']
    v = Verdict(pid, tier)
    v.cov['rule'] = 'replay of one stored case (expected values from file)'
    with Build() as build:
        jobs = [(impl, {'cases': [case]}) for impl in ('c', 'py')]
        for (impl, job), r in zip(jobs, run_children(
                build, 'replay_adapt.py', jobs)):
            if 'crash' in r:
                v.violation('%s %s replay crashed with signal %s' % (
                    pid, impl, r['crash']), r)
                continue
            v.cov['evaluations'] += r['evaluations']
            v.cov['traces_validated_against_impl'] += r['cases']
            for m in r['mismatches']:
                v.violation(sig(pid, m), m)
    return v.finish()


def selftest():
    """Each defective Variant of the mechanism must violate the clause of
    the statement it breaks (shows the invariants are not vacuous)."""
    ok = True
    with Build() as build:
        for variant, inv in SELFTEST:
            cfg = make_cfg(build.dir, 'adapt_' + variant, {
                'MaxHooks': 2, 'Nesting': 'FALSE',
                'Variant': '"%s"' % variant}, invariants=[inv])
            res = run_tlc('MC_Adapt', cfg, scratch=build.dir, workers=4)
            good = res.violated == inv
            ok = ok and good
            print('selftest Variant=%s: %s %s' % (
                variant, inv, 'violated as expected' if good else
                'NOT violated (got %r)' % res.violated))
    return 0 if ok else 2


if __name__ == '__main__':
    try:
        if sys.argv[2] == 'selftest':
            sys.exit(selftest())
        if '--replay' in sys.argv:
            sys.exit(replay(sys.argv[1], sys.argv[2],
                            sys.argv[sys.argv.index('--replay') + 1]))
        sys.exit(main(sys.argv[1], sys.argv[2]))
    except MachineryError as e:
        print('MACHINERY FAILURE: %s' % e)
        sys.exit(2)
