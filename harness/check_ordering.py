"""C12: Ordering.tla checked by TLC over systematic and seeded universes;
every case (ordered pair of objects, sorted() input) replayed into real
interfaces / class specifications under both implementations; sorted()
repeated in child processes with several PYTHONHASHSEED values, requiring
identical sequences everywhere."""
import concurrent.futures
import json
import sys

from common import (Build, MachineryError, Verdict, make_cfg, run_children,
                    run_tlc, seed, shard, NCPU)

# letter -> text.  Order embedding: the first characters are pairwise distinct
# and strictly increasing in code-point order (checked below), so sequences of
# letters compare like the concatenated texts (MC_OrderingUniverse.tla names
# them).  Letter 5 is the whole module name of Implements.  Letters 7/8 (UCS2)
# and 10/11 (UCS4) have little-endian byte images whose memcmp order is the
# reverse of their code-point order; letter 1 is U+0000; letter 9 (U+FF5E)
# sorts after the non-BMP letters in UTF-16 code-unit order.
LETTERS = ['\x00', '.', '?', 'a', 'zope.interface.declarations', 'é',
           'ā', 'Ȁ', '～', '\U00010001', '\U00010100']

INVARIANTS = ['TypeOK', 'MechIsRef', 'DunderIsRef', 'TupleIsKeyOrder',
              'StrOrderTotal', 'LawReflexive', 'LawAntisymmetric', 'LawTotal',
              'LawStrict', 'LawTransitive', 'LawEqIffKey',
              'LawHashConsistent', 'LawImplIdentity', 'LawNeIsNotEq',
              'LawReflected', 'LawBeforeNone', 'LawNotImplemented',
              'LawImplsAgree', 'LawSortedUnique']

# (UName, seed offset, NSets, MaxLen)
RUNS = {
    'quick': [('quick', 0, 24, 12), ('rand', 1, 12, 10)],
    'thorough': [('thorough', 0, 60, 40), ('thorough2', 0, 60, 40),
                 ('quick', 1, 60, 16),
                 ('rand', 2, 30, 16), ('rand', 3, 30, 16),
                 ('rand', 4, 30, 16), ('rand', 5, 30, 16),
                 ('rand', 6, 30, 16), ('rand', 7, 30, 16)],
}
SELFTEST = ['modfirst', 'nameonly']


def hash_seeds(tier):
    own = str(seed() % 4294967296 or 12345)
    if tier == 'quick':
        return ['0', '1', own, 'random']
    return ['0', '1', '2', '3', own, '4294967295', 'random', 'random']


def constants(uname, sd, nsets, maxlen, variant='shipped'):
    return {'U': '<-MCU', 'Dot': '<-LDot', 'Qm': '<-LQm',
            'ImplModule': '<-MCImplModule', 'SortInputs': '<-MCSortInputs',
            'CVariant': '"%s"' % variant, 'UName': '"%s"' % uname,
            'Seed': sd % 60000, 'NSets': nsets, 'MaxLen': maxlen}


def check_letters():
    firsts = [ord(t[0]) for t in LETTERS]
    if any(not t for t in LETTERS) or firsts != sorted(set(firsts)):
        raise MachineryError('letter map is not an order embedding')


def run_env_children(build, jobs):
    """jobs: (impl, job, extra_env).  Like common.run_children, with a
    per-child environment (PYTHONHASHSEED)."""
    def one(j):
        impl, job, env = j
        p = build.child(impl, 'replay_ordering.py', job, extra_env=env)
        if p.returncode < 0:
            return {'crash': -p.returncode, 'stderr': p.stderr[-2000:]}
        try:
            return json.loads(p.stdout)
        except Exception:
            raise MachineryError('child failed rc=%s\n%s\n%s' % (
                p.returncode, p.stderr[-4000:], p.stdout[-1000:]))
    with concurrent.futures.ThreadPoolExecutor(NCPU) as ex:
        return list(ex.map(one, jobs))


def sig_of(pid, m):
    return '%s %s %s expected=%s got=%s ctx=%s' % (
        pid, m['impl'], m['what'], json.dumps(m['expected']),
        json.dumps(m['got']), json.dumps(m['ctx'], sort_keys=True))


def absorb(v, pid, impl, r, what):
    """common part of a child's result -> verdict; False if it crashed."""
    if 'crash' in r:
        v.violation('%s %s replay (%s) crashed with signal %s' % (
            pid, what, impl, r['crash']), r)
        return False
    if r['guard_failures']:
        raise MachineryError(
            'the specification disagrees with an independent guard '
            '(letter map / string order / foreign objects): '
            + json.dumps(r['guard_failures'][:3]))
    v.cov['evaluations'] += r['evaluations']
    for m in r['mismatches']:
        v.violation(sig_of(pid, m), m)
    return True


def describe(universe, k):
    o = universe['objs'][k - 1]
    txt = lambda q: ascii(''.join(LETTERS[l - 1] for l in q))
    return '%s#%d(%s,%s)' % (o['kind'], k, txt(o['name']), txt(o['module']))


def replay(build, v, pid, tier, name, universe, pairs, sorts):
    # --- pairs: all six operators, direct special methods, hash ---
    jobs = []
    for impl in ('c', 'py'):
        for sh in shard(pairs, max(1, NCPU // 2)):
            jobs.append((impl, {'mode': 'pairs', 'letters': LETTERS,
                                'universe': universe, 'cases': sh}))
    for (impl, job), r in zip(jobs, run_children(build, 'replay_ordering.py',
                                                 jobs)):
        absorb(v, pid, impl, r, 'pairs')
    v.cov['traces_validated_against_impl'] += 2 * len(pairs)

    # --- sorted(): every input, in one process per (impl, hash seed) ---
    inputs = [c['inp'] for c in sorts]
    jobs = []
    for impl in ('c', 'py'):
        for n, hs in enumerate(hash_seeds(tier)):
            jobs.append((impl, {'mode': 'sort', 'letters': LETTERS,
                                'universe': universe, 'inputs': inputs,
                                'shuffle': seed() * 1000 + n * 2 +
                                (impl == 'c')},
                         {'PYTHONHASHSEED': hs}))
    results = run_env_children(build, jobs)
    seen = {}       # input number -> {tuple(out): [process labels]}
    for (impl, job, env), r in zip(jobs, results):
        label = '%s/PYTHONHASHSEED=%s' % (impl, env['PYTHONHASHSEED'])
        if not absorb(v, pid, impl, r, 'sorted ' + label):
            continue
        for c, got in zip(sorts, r['outs']):
            key = json.dumps(got)
            seen.setdefault(c['n'], {}).setdefault(key, []).append(label)
            if got != c['out']:
                pos = next((q for q, (a, b) in enumerate(zip(got, c['out']))
                            if a != b), None) if isinstance(got, list) else None
                ctx = {'input': c['n'], 'len': len(c['inp']), 'first_diff': pos}
                if pos is not None:
                    ctx['expected_there'] = describe(universe, c['out'][pos])
                    ctx['got_there'] = describe(universe, got[pos])
                v.violation(
                    '%s %s sorted() is not the stable key order: %s' % (
                        pid, impl, json.dumps(ctx, sort_keys=True)),
                    {'impl': impl, 'process': label, 'universe': name,
                     'input': c['inp'], 'expected': c['out'], 'got': got,
                     'ctx': ctx})
    for n, outs in seen.items():
        if len(outs) > 1:
            v.violation(
                '%s sorted() of input %d (%s) differs between processes / '
                'hash seeds / implementations: %s' % (
                    pid, n, name, json.dumps(sorted(outs.values())[:4])),
                {'universe': name, 'input': n,
                 'groups': [{'out': json.loads(k), 'processes': p}
                            for k, p in outs.items()]})
    v.cov['traces_validated_against_impl'] += len(sorts) * len(jobs)


def main(pid, tier):
    check_letters()
    v = Verdict(pid, tier)
    v.cov['rule'] = (
        'cases = states of MC_Ordering: every ordered pair of objects of the '
        'universe (6 operators, 6 direct special-method calls, hash '
        'equality; both operand orders because (y, x) is a case too) and '
        'every sorted() input (whole universe forwards / reversed / rotated, '
        'seeded sub-multisets), each replayed under both implementations, '
        'sorted() additionally in one process per PYTHONHASHSEED; '
        'non-trivial = ordered pair of two distinct keyed objects whose '
        'names are equal or prefix-related (decided by the module, the '
        'length, or nothing)')
    v.assumptions = [
        'names and modules are str; strings over an 11-letter alphabet '
        'mapped by an order embedding (U+0000, ASCII, Latin-1, UCS2 and '
        'UCS4 letters, the empty string, prefixes)',
        'names are not mutated after the first hash()',
        'an interface whose key equals that of a class specification or of '
        'a foreign keyed object compares == to it (documented in '
        'interface.py); the model records it, the laws do not cover it',
        'no operand type is a subclass of another operand type',
        'CPython str comparison, TLC, CommunityModules Json and '
        'harness/replay_ordering.py (object builder) trusted; the string '
        'order of the spec is cross-checked against CPython tuple '
        'comparison on every interface pair']
    exhaustive = True
    with Build() as build:
        # the invariants have teeth: two mutations of the C mechanism inside
        # the model must be refuted by TLC
        for variant in SELFTEST:
            cfg = make_cfg(build.dir, 'selftest',
                           constants('quick', 0, 1, 4, variant),
                           invariants=INVARIANTS)
            res = run_tlc('MC_Ordering', cfg, scratch=build.dir, workers=1)
            if not res.violated:
                raise MachineryError('self-test: TLC accepts the mechanism '
                                     'variant %r' % variant)
            v.notes.setdefault('selftest', {})[variant] = res.violated
        for (uname, off, nsets, maxlen) in RUNS[tier]:
            sd = seed() + off
            cfg = make_cfg(build.dir, 'ord', constants(uname, sd, nsets,
                                                       maxlen),
                           invariants=INVARIANTS + ['Dump'])
            # every state is an initial state (generated sequentially), and
            # TLC re-evaluates the constant tables once per worker
            # (deep RECURSIVE sorting operators over the larger universes
            # need a larger thread stack than the JVM default)
            res = run_tlc('MC_Ordering', cfg, scratch=build.dir, workers=1,
                          jvm='-Xss64m')
            name = '%s seed=%d NSets=%d MaxLen=%d' % (uname, sd, nsets,
                                                      maxlen)
            v.add_tlc(res, name)
            if res.violated:
                raise MachineryError(
                    'model-level violation of %s in %s (the specification '
                    'of the mechanism does not satisfy the property):\n%s'
                    % (res.violated, name, '\n'.join(res.trace[:40])))
            if len(res.lines) != res.distinct:
                raise MachineryError('dump incomplete: %d lines for %d states'
                                     % (len(res.lines), res.distinct))
            unis = [c for c in res.lines if c['k'] == 0]
            pairs = [c for c in res.lines if c['k'] == 1]
            sorts = [c for c in res.lines if c['k'] == 2]
            if len(unis) != 1 or len(pairs) != len(unis[0]['objs']) ** 2:
                raise MachineryError('dump malformed in ' + name)
            v.cov['distinct_nontrivial'] += sum(1 for c in pairs if c['nt'])
            replay(build, v, pid, tier, name, unis[0], pairs, sorts)
            nt = [c for c in pairs if c['nt']]
            if nt:
                c = nt[len(nt) // 2]
                v.sample({'universe': name,
                          'x': describe(unis[0], c['i']),
                          'y': describe(unis[0], c['j']), 'expected': c['op']})
            v.sample({'universe': name, 'sorted_input_len':
                      len(sorts[0]['inp']), 'inputs': len(sorts)})
    v.cov['exhaustive'] = exhaustive
    return v.finish()


if __name__ == '__main__':
    try:
        sys.exit(main(sys.argv[1], sys.argv[2]))
    except MachineryError as e:
        print('MACHINERY FAILURE: %s' % e)
        sys.exit(2)
