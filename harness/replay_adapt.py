"""Child: replays the terminal states of MC_Adapt (C14) into the real
InterfaceBase.__call__ / __adapt__ of the implementation this child is bound
to and compares outcome, call log and registry.queryAdapter answers with what
the specification dumped.  Nothing is derived here: the expected values are
the TLC records.

job = {"cases": [{"in": {...}, "out": {"k","v"}, "log": [...],
                  "query": [{"k","v"}, ...], "nt": bool}, ...]}
result = {"evaluations": n, "executions": n, "mismatches": [...]}

How an input is realised
  conform   absent: no attribute; attrAE / attrOther: a property whose getter
            raises AttributeError / AttrBoom; ret*/raises*: a method (its
            body appends "conform" to the log).  raisesTE raises TypeError
            from the method's own frame.
  provided  the object's class implements I (and always the marker IMark).
  hooks     plain mode: functions hook(iface, obj) appending "h<i>";
            reg mode: the bound adapter_hook of one real AdapterRegistry per
            position with a factory registered for (IMark,) -> I that appends
            "h<i>" and behaves as prescribed.
  custom    an interface whose class body defines __adapt__ through
            @interfacemethod (appends "custom"); "delegate" returns
            super().__adapt__(obj).
  nest=i    hook i first evaluates J(other, nalt) (J another interface, other
            a plain object; for J every hook logs "j<k>" and answers None) and
            logs "nok" iff that returned nalt.
Values are compared by identity, exceptions by identity of the raised
instance; TypeError('Could not adapt', obj, I) by exact type, args[0] and
identity of args[1:].
"""
import childlib
impl = childlib.boot()

import sys

from zope.interface import Interface, classImplements, interfacemethod
from zope.interface.adapter import AdapterRegistry
import zope.interface.interface as zii

job = childlib.job()
adapter_hooks = zii.adapter_hooks

# the implementation of InterfaceBase bound here must be the one asked for
_is_py = zii.InterfaceBase is zii.InterfaceBasePy
if _is_py != (impl == 'py'):
    sys.stderr.write('wrong InterfaceBase bound for impl %s\n' % impl)
    sys.exit(3)
if impl == 'c':
    from zope.interface import _zope_interface_coptimizations as _c
    if _c.adapter_hooks is not adapter_hooks:
        sys.stderr.write('adapter_hooks is not the C module list\n')
        sys.exit(3)

MOD = 'verif_adapt_world'
LOG = []
CTX = None
MAXH = 4


class Val(object):
    def __init__(self, name):
        self.name = name

    def __repr__(self):
        return '<Val %s>' % self.name


class FalsyLen(Val):
    def __len__(self):
        return 0


class FalsyBool(Val):
    def __bool__(self):
        return False


VALUES = {}
for _i in range(1, MAXH + 1):
    VALUES['v%d' % _i] = Val('v%d' % _i)
    VALUES['f%d' % _i] = (FalsyLen if _i % 2 else FalsyBool)('f%d' % _i)
VALUES['conform'] = Val('conform')
VALUES['conformF'] = FalsyBool('conformF')
VALUES['custom'] = Val('custom')
VALUES['customF'] = FalsyLen('customF')
ALT = Val('alt')
NALT = Val('nalt')
NAME_OF = dict((id(v), k) for k, v in VALUES.items())
assert not VALUES['f1'] and not VALUES['f2'] and not VALUES['conformF']
assert not VALUES['customF'] and VALUES['v1']


class Boom(StopIteration):
    # (a StopIteration: what a hook or __conform__ raises propagates unchanged
    # whatever its type, also when the caller happens to loop or generate)
    pass


class AttrBoom(Exception):
    pass


FLAVOUR = {'V': Boom, 'A': AttributeError, 'T': TypeError}


def boom(name, cls):
    """Raise a fresh, remembered instance (identity is compared later)."""
    e = cls('boom ' + name)
    CTX.raised[name] = e
    raise e


# --------------------------------------------------------------------------
# interfaces

class IMark(Interface):
    __module__ = MOD


class J(Interface):
    __module__ = MOD


def _custom(iface, obj, kind):
    LOG.append('custom')
    c = CTX
    if iface is not c.I or obj is not c.obj:
        LOG.append('custom-badargs')
    if kind == 'none':
        return None
    if kind == 'value':
        return VALUES['custom']
    if kind == 'falsy':
        return VALUES['customF']
    if kind == 'raises':
        boom('customX', FLAVOUR[c.inp['exc']])
    raise AssertionError(kind)


def make_iface(kind):
    mod = MOD + '.' + kind
    if kind == 'noCustom':
        class I(Interface):
            __module__ = mod
    elif kind == 'delegate':
        class I(Interface):
            __module__ = mod

            @interfacemethod
            def __adapt__(self, obj):
                LOG.append('custom')
                if self is not CTX.I or obj is not CTX.obj:
                    LOG.append('custom-badargs')
                return super().__adapt__(obj)
    else:
        class I(Interface):
            __module__ = mod

            @interfacemethod
            def __adapt__(self, obj):
                return _custom(self, obj, kind)
    return I


IFACE = dict((k, make_iface(k)) for k in
             ('noCustom', 'none', 'value', 'falsy', 'raises', 'delegate'))


def make_derived(kind):
    """an interface that INHERITS the custom __adapt__ of IFACE[kind] and
    adds an unrelated interface method of its own"""
    class IDer(IFACE[kind]):
        __module__ = MOD + '.' + kind + '.derived'

        @interfacemethod
        def extra(self):
            return 'extra'
    return IDer


IDER = dict((k, make_derived(k)) for k in IFACE if k != 'noCustom')

# --------------------------------------------------------------------------
# objects


def _conform_body(self, iface, kind):
    LOG.append('conform')
    c = CTX
    if self is not c.obj or iface is not c.I:
        LOG.append('conform-badargs')
    if kind == 'retNone':
        return None
    if kind == 'retValue':
        return VALUES['conform']
    if kind == 'retFalsy':
        return VALUES['conformF']
    if kind == 'raises':
        boom('conformV', Boom)
    if kind == 'raisesAE':
        boom('conformA', AttributeError)
    if kind == 'raisesTE':
        boom('conformT', TypeError)
    raise AssertionError(kind)


_classes = {}


def get_class(conform, provided, custom, derived=False):
    key = (conform, provided, custom) + (('derived',) if derived else ())
    cls = _classes.get(key)
    if cls is not None:
        return cls
    ns = {}
    if conform == 'absent':
        pass
    elif conform == 'attrAE':
        def getter(self):
            boom('attrAE', AttributeError)
        ns['__conform__'] = property(getter)
    elif conform == 'attrOther':
        def getter(self):
            boom('attrOther', AttrBoom)
        ns['__conform__'] = property(getter)
    else:
        def __conform__(self, iface, kind=conform):
            return _conform_body(self, iface, kind)
        ns['__conform__'] = __conform__
    cls = type('C_' + '_'.join(map(str, key)), (object,), ns)
    if provided:
        classImplements(cls, IMark,
                        IDER[custom] if derived else IFACE[custom])
    else:
        classImplements(cls, IMark)
    _classes[key] = cls
    return cls


class Other(object):
    pass


# --------------------------------------------------------------------------
# hooks

def _answer(i, kind):
    if kind == 'none':
        return None
    if kind == 'value':
        return VALUES['v%d' % i]
    if kind == 'falsy':
        return VALUES['f%d' % i]
    if kind == 'raises':
        boom('x%d' % i, FLAVOUR[CTX.inp['exc']])
    raise AssertionError(kind)


def make_hook(i):
    def hook(iface, obj):
        c = CTX
        if iface is J:
            LOG.append('j%d' % i)
            if obj is not c.other:
                LOG.append('j%d-badargs' % i)
            return None
        LOG.append('h%d' % i)
        if iface is not c.I or obj is not c.obj:
            LOG.append('h%d-badargs' % i)
        if c.inp['nest'] == i:
            r = J(c.other, NALT)
            LOG.append('nok' if r is NALT else 'nbad')
        return _answer(i, c.inp['hooks'][i - 1])
    hook.__name__ = 'hook%d' % i
    return hook


PLAIN = dict((i, make_hook(i)) for i in range(1, MAXH + 1))

_registries = {}


def get_registry(i, kind):
    r = _registries.get((i, kind))
    if r is None:
        def factory(obj, i=i, kind=kind):
            LOG.append('h%d' % i)
            if obj is not CTX.obj:
                LOG.append('h%d-badargs' % i)
            return _answer(i, kind)
        r = AdapterRegistry()
        for iface in list(IFACE.values()) + list(IDER.values()):
            r.register([IMark], iface, '', factory)
        _registries[(i, kind)] = r
    return r


# --------------------------------------------------------------------------

class Ctx(object):
    def __init__(self, inp):
        self.inp = inp
        self.I = IFACE[inp['custom']]
        self.obj = get_class(inp['conform'], inp['provided'],
                             inp['custom'])()
        self.other = Other()
        self.raised = {}
        if inp['reg']:
            self.regs = [get_registry(i + 1, k)
                         for i, k in enumerate(inp['hooks'])]
            self.hooks = [r.adapter_hook for r in self.regs]
        else:
            self.regs = []
            self.hooks = [PLAIN[i + 1] for i in range(len(inp['hooks']))]


def project(c, r):
    if r is None:
        return 'None'
    if r is c.obj:
        return 'obj'
    if r is ALT:
        return 'alt'
    n = NAME_OF.get(id(r))
    if n is not None:
        return n
    return 'unknown:%r' % (r,)


def project_exc(c, e):
    for name, inst in c.raised.items():
        if inst is e:
            return name
    if (type(e) is TypeError and len(e.args) == 3
            and e.args[0] == 'Could not adapt'
            and e.args[1] is c.obj and e.args[2] is c.I):
        return 'CouldNotAdapt'
    return 'unknown-exc:%s%r' % (type(e).__name__, e.args)


def guarded(c, f):
    try:
        return {'k': 'hit', 'v': project(c, f())}
    except Exception as e:  # the code under test may raise anything
        return {'k': 'exc', 'v': project_exc(c, e)}


def execute(inp, how):
    """-> (ctx, outcome, log)"""
    global CTX
    how, _, attach = how.partition('/')
    c = CTX = Ctx(inp)
    if attach == 'derived':
        # the interface INHERITS its custom __adapt__ (and adds another
        # interface method): the inherited one must be called just the same
        c.I = IDER[inp['custom']]
        c.obj = get_class(inp['conform'], inp['provided'], inp['custom'],
                          derived=True)()
    elif attach:
        kind = inp['conform']
        base = get_class('absent', inp['provided'], inp['custom'])
        if attach == 'instancefunc':
            o = base()
            o.__conform__ = lambda iface, o=o: _conform_body(o, iface, kind)
        else:
            holder = []
            sub = type('S', (base,), {'__conform__': staticmethod(
                lambda iface: _conform_body(holder[0], iface, kind))})
            o = sub()
            holder.append(o)
        c.obj = o
    del LOG[:]
    I, obj = c.I, c.obj
    if inp['entry'] == 'adapt':
        def f():
            return I.__adapt__(obj)
    elif inp['alt'] == 'notGiven':
        def f():
            return I(obj)
    else:
        a = ALT if inp['alt'] == 'given' else None
        if how == 'kw':
            def f():
                return I(obj, alternate=a)
        else:
            def f():
                return I(obj, a)
    saved = adapter_hooks[:]
    adapter_hooks[:] = c.hooks
    try:
        out = guarded(c, f)
    finally:
        adapter_hooks[:] = saved
    return c, out, list(LOG)


evaluations = 0
executions = 0
mismatches = []
hooks_before = adapter_hooks[:]


def mismatch(what, case, how, expected, got, extra=None):
    if len(mismatches) < 200:
        m = {'impl': impl, 'case_idx': childlib.CASE[0], 'what': what, 'expected': expected, 'got': got,
             'ctx': case['in'], 'how': how, 'case': case}
        if extra:
            m.update(extra)
        mismatches.append(m)


for childlib.CASE[0], case in enumerate(job['cases']):
    inp = case['in']
    ways = ['pos']
    if inp['entry'] == 'call' and inp['alt'] != 'notGiven':
        ways.append('kw')
    if inp['conform'] not in ('absent', 'attrAE', 'attrOther'):
        # __conform__ need not be a method of the class: a plain function
        # stored on the instance, or a staticmethod, is called just the same
        ways += ['pos/instancefunc', 'pos/staticmethod']
    if inp['custom'] != 'noCustom':
        ways.append('pos/derived')
    for how in ways:
        try:
            c, out, log = execute(inp, how)
        except Exception as e:
            mismatch('harness-exception', case, how, None,
                     '%s%r' % (type(e).__name__, e.args))
            continue
        executions += 1
        evaluations += 2
        if out != case['out']:
            mismatch('outcome', case, how, case['out'], out, {'log': log})
        if log != list(case['log']):
            mismatch('calllog', case, how, list(case['log']), log,
                     {'outcome': out})
    if inp['reg']:
        # registry.queryAdapter(obj, I) of every registry behind the hooks,
        # on the object of the last execution
        for i, reg in enumerate(c.regs):
            del LOG[:]
            q = guarded(c, lambda: reg.queryAdapter(c.obj, c.I))
            evaluations += 1
            if q != case['query'][i]:
                mismatch('queryAdapter', case, 'reg%d' % (i + 1),
                         case['query'][i], q)

if adapter_hooks[:] != hooks_before:
    sys.stderr.write('adapter_hooks not restored\n')
    sys.exit(3)

childlib.done({'evaluations': evaluations, 'executions': executions,
               'mismatches': mismatches, 'cases': len(job['cases'])})
