"""Code -> spec conformance for declarations (C01): record traces from the
real code (harness/record_declarations.py: seeded random drivers over
universes larger than TLC generates from, the repository's own doctests) and
validate them with spec/TraceDeclarations.tla."""
import json
import os
import re

from common import MachineryError, REPO, run_children, run_tlc, seed

PLAN = {'quick': dict(traces=120, events=100),
        'thorough': dict(traces=3000, events=150)}
DOCTESTS = ['docs/README.rst', 'docs/api/declarations.rst',
            'docs/adapter.rst', 'docs/human.rst', 'docs/verify.rst',
            'docs/api/specifications.rst']


def validate(build, v, pid, tier):
    plan = PLAN[tier]
    docs = [os.path.join(REPO, f) for f in DOCTESTS
            if os.path.exists(os.path.join(REPO, f))]
    jobs = []
    for k, implv in enumerate(('c', 'py')):
        jobs.append((implv, {'mode': 'random', 'traces': plan['traces'],
                             'events': plan['events'],
                             'seed': seed() * 7919 + k}))
        jobs.append((implv, {'mode': 'doctest', 'files': docs}))
    results = run_children(build, 'record_declarations.py', jobs)
    for (implv, job), r in zip(jobs, results):
        label = 'recorded declaration traces (%s, %s)' % (job['mode'], implv)
        if 'crash' in r:
            v.violation('%s %s: recorder crashed with signal %s' % (
                pid, label, r['crash']), r)
            continue
        # an interface whose bases were changed during the run (the
        # documentation does that) changes every closure: not modelled here
        # (SpecGraph.tla covers it)
        traces = [t for t in r['traces'] if t['ev'] and not t['dynamic']]
        if not traces:
            continue
        path = os.path.join(build.dir, 'decltrace_%s_%s.ndjson' % (
            job['mode'], implv))
        with open(path, 'w') as f:
            for t in traces:
                f.write(json.dumps(t) + '\n')
        res = run_tlc('TraceDeclarations', 'TraceDeclarations',
                      scratch=build.dir, workers=1,
                      env={'TRACE_FILE': path}, timeout=3000, jvm='-Xss64m')
        v.add_tlc(res, 'trace validation: ' + label)
        nev = sum(len(t['ev']) for t in traces)
        judged = sum(int(x) for x in re.findall(
            r'<<"judged", \d+, (\d+)>>', res.raw))
        v.notes.setdefault('recorded_traces', []).append({
            'source': label, 'traces': len(traces), 'events': nev,
            'queries_judged': judged, 'doctests': r.get('notes')})
        if res.violated:
            m = re.search(r'mismatch = (<< ?"trace".*?>>)\s*/\\',
                          res.raw_tail, re.S)
            detail = m.group(1) if m else res.raw_tail[-1200:]
            rec = {'trace_tail': res.trace[-60:]}
            mt = re.search(r'"trace",\s*(\d+),\s*"event",\s*(\d+)', detail)
            if mt and int(mt.group(1)) <= len(traces):
                # the program of the rejected trace, as text, up to the
                # rejected event, and the recorded events
                t = traces[int(mt.group(1)) - 1]
                rec['source'] = t.get('file')
                rec['program'] = t.get('script')
                rec['events'] = [
                    {k: x for k, x in e.items() if k != 'ianc'}
                    for e in t['ev'][:int(mt.group(2))]]
            v.violation('%s %s rejected by TraceDeclarations: %s' % (
                pid, label, ' '.join(detail.split())[:900]), rec)
        elif res.distinct != nev + len(traces):
            raise MachineryError(
                'trace validation consumed %d states for %d events in %d '
                'traces (%s)' % (res.distinct, nev, len(traces), label))
        elif job['mode'] == 'random' and judged < nev // 5:
            raise MachineryError(
                'trace validation judged only %d queries of %d events (%s)'
                % (judged, nev, label))
        else:
            v.cov['traces_validated_against_impl'] += len(traces)
            v.cov['evaluations'] += judged
            if job['mode'] == 'random':
                v.sample({'recorded trace (first events)':
                          traces[0]['ev'][:8]})
