"""Child: replays Ordering cases (TLC dumps of MC_Ordering) into real
interfaces / class-implementation specifications / None / foreign objects and
compares every observable with the value the specification computed.

job = {"mode": "pairs"|"sort", "letters": [str, ...], "universe": <k=0 record>,
       "cases": [<k=1 records>]            (pairs)
       "inputs": [[idx, ...], ...], "shuffle": int   (sort)}

pairs result: {"evaluations": n, "mismatches": [...], "mismatch_count": n,
               "guard_failures": [...]}
sort  result: {"outs": [[idx, ...] | "EXC:<Type>", ...], "mismatches": [...],
               "guard_failures": [...], "evaluations": n}

The expected values all come from the dump.  The only thing computed here is
an independent GUARD of the specification's string order: CPython's own
comparison of the mapped (name, module) tuples must agree with the dumped
expectation for pairs of interfaces (disagreement = the letter map or StrLt is
wrong = machinery error in the parent, never a violation).
"""
import childlib
impl = childlib.boot()

import operator
import random
import sys

from zope.interface.declarations import Implements, implementedBy
from zope.interface.interface import InterfaceClass

job = childlib.job()
LETTERS = job['letters']
UNI = job['universe']
OBJS = UNI['objs']

OPS = {'lt': operator.lt, 'le': operator.le, 'gt': operator.gt,
       'ge': operator.ge, 'eq': operator.eq, 'ne': operator.ne}
DUNDER = {k: '__%s__' % k for k in OPS}

evaluations = 0
mismatches = []
mismatch_count = 0
guard_failures = []


def s(seq):
    return ''.join(LETTERS[l - 1] for l in seq)


class NoKey:
    """foreign object without __name__"""


class Keyed:
    """foreign instance with __name__ and __module__"""

    def __init__(self, name, module):
        self.__name__ = name
        self.__module__ = module


def make_nomod(name):
    class NoMod:
        """foreign object with __name__ whose __module__ raises
        AttributeError"""
        __name__ = name

        @property
        def __module__(self):
            raise AttributeError('__module__')
    return NoMod()


keep = []          # classes behind the Implements, junk


made = [0]


def make(o):
    kind = o['kind']
    name, module = s(o['name']), s(o['module'])
    # equal strings are not always the same object: alternate between
    # interned names (what a class statement or a literal gives) and fresh
    # string objects (what join / decoding / unpickling give)
    made[0] += 1
    if made[0] % 2:
        name, module = sys.intern(name), sys.intern(module)
    else:
        name, module = ''.join(list(name)), ''.join(list(module))
    if kind == 'iface':
        return InterfaceClass(name, __module__=module)
    if kind == 'impl':
        cls = type(name, (), {'__module__': module})
        keep.append(cls)
        return implementedBy(cls)
    if kind == 'none':
        return None
    if kind == 'fnokey':
        return NoKey()
    if kind == 'fnomod':
        return make_nomod(name)
    if kind == 'fkeyed':
        return Keyed(name, module)
    if kind == 'fclass':
        return type(name, (), {'__module__': module})
    raise AssertionError(kind)


def build(shuffle=None):
    """universe index (1-based) -> real object.  With shuffle, the objects
    are created in a seeded random order with junk allocated in between, so
    that memory addresses are unrelated to universe indices."""
    order = list(range(len(OBJS)))
    rnd = None
    if shuffle is not None:
        rnd = random.Random(shuffle)
        rnd.shuffle(order)
    real = [None] * len(OBJS)
    for k in order:
        if rnd is not None:
            keep.append([object() for _ in range(rnd.randrange(0, 40))])
        real[k] = make(OBJS[k])
    return real


def describe(k):
    o = OBJS[k - 1]
    return '%s#%d(%s,%s)' % (o['kind'], k, ascii(s(o['name'])),
                             ascii(s(o['module'])))


def obs(f):
    global evaluations
    evaluations += 1
    try:
        r = f()
    except TypeError:
        return 'TE'
    except BaseException as e:          # noqa: code under test
        return 'EXC:' + type(e).__name__
    if r is True:
        return 'T'
    if r is False:
        return 'F'
    if r is NotImplemented:
        return 'NI'
    return 'VAL:' + repr(r)[:60]


def mismatch(what, expected, got, ctx):
    global mismatch_count
    mismatch_count += 1
    if len(mismatches) < 60:
        mismatches.append({'impl': impl, 'case_idx': childlib.CASE[0], 'what': what, 'expected': expected,
                           'got': got, 'ctx': ctx})


def check_keys(real):
    """__name__ / __module__ of the specifications are what the model says
    (for Implements: _implements_name and the class attribute)."""
    global evaluations
    for k, o in enumerate(OBJS, 1):
        x = real[k - 1]
        if o['kind'] in ('iface', 'impl'):
            evaluations += 1
            try:
                got = [x.__name__, x.__module__]
            except BaseException as e:  # noqa
                got = 'EXC:' + type(e).__name__
            exp = [s(o['kname']), s(o['kmod'])]
            if got != exp:
                mismatch('key', [ascii(e) for e in exp],
                         [ascii(g) for g in got] if isinstance(got, list)
                         else got, {'x': describe(k)})
        elif o['kind'] in ('fkeyed', 'fclass'):
            if [x.__name__, x.__module__] != [s(o['kname']), s(o['kmod'])]:
                guard_failures.append({'what': 'foreign key', 'x': describe(k)})
        elif o['kind'] == 'fnokey':
            if hasattr(x, '__name__'):
                guard_failures.append({'what': 'fnokey has name'})
        elif o['kind'] == 'fnomod':
            if not hasattr(x, '__name__') or hasattr(x, '__module__'):
                guard_failures.append({'what': 'fnomod attributes'})
    if s(UNI['implmodule']) != 'zope.interface.declarations':
        guard_failures.append({'what': 'letter map: ImplModule'})


def guard_pair(c):
    """CPython's tuple comparison of the mapped keys vs the dumped
    expectation (interfaces only: there the contract is exactly that)."""
    oi, oj = OBJS[c['i'] - 1], OBJS[c['j'] - 1]
    if oi['kind'] != 'iface' or oj['kind'] != 'iface':
        return
    ki = (s(oi['kname']), s(oi['kmod']))
    kj = (s(oj['kname']), s(oj['kmod']))
    for name, f in OPS.items():
        want = 'T' if f(ki, kj) else 'F'
        if c['op'][name] != want:
            guard_failures.append({'what': 'string order', 'op': name,
                                   'x': describe(c['i']),
                                   'y': describe(c['j']),
                                   'spec': c['op'][name], 'cpython': want})


def run_pairs():
    real = build()
    check_keys(real)
    for childlib.CASE[0], c in enumerate(job['cases']):
        x, y = real[c['i'] - 1], real[c['j'] - 1]
        ctx = {'x': describe(c['i']), 'y': describe(c['j'])}
        guard_pair(c)
        for name, f in OPS.items():
            got = obs(lambda: f(x, y))
            if got != c['op'][name]:
                mismatch('x %s y' % name, c['op'][name], got, ctx)
        du = c['du']
        if du:
            for name in OPS:
                got = obs(lambda: getattr(x, DUNDER[name])(y))
                if got != du[name]:
                    mismatch('x.%s(y)' % DUNDER[name], du[name], got, ctx)
        got = obs(lambda: hash(x) == hash(y))
        if c['h'] == 'T':
            if got != 'T':
                mismatch('hash(x) == hash(y)', 'T', got, ctx)
        elif got not in ('T', 'F'):
            mismatch('hash(x) == hash(y)', 'T|F', got, ctx)
    childlib.done({'evaluations': evaluations, 'mismatches': mismatches,
                   'mismatch_count': mismatch_count,
                   'guard_failures': guard_failures[:10]})


def run_sort():
    global evaluations
    real = build(shuffle=job['shuffle'])
    check_keys(real)
    index = {}
    for k, x in enumerate(real, 1):
        index[id(x)] = k
    outs = []
    for inp in job['inputs']:
        xs = [real[k - 1] for k in inp]
        evaluations += 1
        try:
            out = sorted(xs)
            outs.append([index[id(x)] for x in out])
        except BaseException as e:      # noqa: code under test
            outs.append('EXC:' + type(e).__name__)
    childlib.done({'evaluations': evaluations, 'outs': outs,
                   'mismatches': mismatches, 'mismatch_count': mismatch_count,
                   'guard_failures': guard_failures[:10]})


if job['mode'] == 'pairs':
    run_pairs()
else:
    run_sort()
