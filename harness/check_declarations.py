"""C01 / C13 / C19: Declarations.tla checked by TLC; one behaviour per
reachable abstract state (and random long behaviours) replayed into real
classes, instances and interfaces under both implementations."""
import json
import random
import sys

from common import (one_case, Build, MachineryError, Verdict, make_cfg, run_children,
                    run_tlc, seed, shard, tla_bool, NCPU)

IB3 = {'0': [], '1': [], '2': [1], '3': []}
SHAPES = {
    'Two': ('PY_Two', 'CO_Two', 2, 2,
            {'0': [], '1': [0], '2': [1]}, [2, 2]),
    'Chain': ('PY_Chain', 'CO_Chain', 4, 3,
              {'0': [], '1': [0], '2': [1], '3': [2], '4': [1]}, [3, 3, 4]),
    'Diamond': ('PY_Diamond', 'CO_Diamond', 4, 3,
                {'0': [], '1': [0], '2': [1], '3': [1], '4': [2, 3]},
                [4, 4, 2]),
    # like Two, but class 1 is a real built-in type (complex): its
    # specification cannot be stored on the class and lives in
    # BuiltinImplementationSpecifications
    'TwoB': ('PY_Two', 'CO_Two', 2, 2,
             {'0': [], '1': [0], '2': [1]}, [2, 2]),
    # like Two, with classes whose truth value is False (a metaclass with
    # __bool__/__len__: registries, enum-like classes)
    'TwoF': ('PY_Two', 'CO_Two', 2, 2,
             {'0': [], '1': [0], '2': [1]}, [2, 2]),
    'Tri': ('PY_Tri', 'CO_Tri', 3, 3,
            {'0': [], '1': [0], '2': [1], '3': [2, 1]}, [3, 3, 2]),
    'Mixin': ('PY_Mixin', 'CO_Mixin', 4, 3,
              {'0': [], '1': [0], '2': [1], '3': [0], '4': [2, 3]},
              [4, 4, 2]),
}
INVS = ['TypeOK', 'ProvidedWithinInterval', 'NoLeak', 'SuperIsRestOfMro',
        'RoundTripIdentity', 'RoundTripSameInterfaces']

# (shape, depth, ArgLists, WithSuper, WithClassProv, Ops, kind, num)
PLAN = {
    ('C01', 'quick'): [('Two', 5, 'Args1', False, True, 'AllOps', 'mc', 0),
                       # every transition (not only every state) as a case
                       ('Two', 4, 'Args1', False, False, 'AllOps', 'mce', 0),
                       ('Chain', 4, 'Args1', False, False, 'AllOps', 'mc', 0),
                       ('TwoB', 4, 'Args1', False, False, 'AllOps', 'mc', 0),
                       ('Tri', 4, 'Args1', False, False, 'ClassOps', 'mc', 0),
                       ('Tri', 12, 'Args12', False, True, 'AllOps', 'sim',
                        300),
                       ('Mixin', 12, 'Args12', False, True, 'AllOps', 'sim',
                        500),
                       ('Diamond', 14, 'Args12', False, True, 'AllOps', 'sim',
                        300)],
    ('C01', 'thorough'): [('Two', 6, 'Args12', False, True, 'AllOps', 'mc', 0),
                          ('Two', 5, 'Args12', False, True, 'AllOps', 'mce',
                           0),
                          ('Tri', 4, 'Args1', False, False, 'AllOps', 'mce',
                           0),
                          ('Chain', 5, 'Args1', False, False, 'AllOps', 'mc',
                           0),
                          ('Diamond', 5, 'Args1', False, False, 'AllOps',
                           'mc', 0),
                          ('Mixin', 5, 'Args1', False, False, 'AllOps', 'mc',
                           0),
                          ('Tri', 5, 'Args1', False, False, 'AllOps', 'mc',
                           0),
                          ('Tri', 20, 'Args12', False, True, 'AllOps',
                           'sim', 8000),
                          ('Mixin', 20, 'Args12', False, True, 'AllOps',
                           'sim', 8000),
                          ('Diamond', 20, 'Args12', False, True, 'AllOps',
                           'sim', 8000)],
    ('C19', 'quick'): [('Diamond', 4, 'Args1', True, False, 'ClassOps', 'mc',
                        0),
                       ('Mixin', 4, 'Args1', True, False, 'ClassOps', 'mce',
                        0),
                       # a built-in type in the remainder of the MRO
                       ('TwoB', 4, 'Args1', True, False, 'ClassOps', 'mc',
                        0),
                       ('Mixin', 4, 'Args1', True, False, 'ClassOps', 'mc',
                        0),
                       ('Mixin', 12, 'Args12', True, False, 'AllOps', 'sim',
                        400),
                       ('Diamond', 12, 'Args12', True, False, 'AllOps', 'sim',
                        200)],
    ('C19', 'thorough'): [('Diamond', 6, 'Args1', True, False, 'ClassOps',
                           'mc', 0),
                          ('Mixin', 6, 'Args1', True, False, 'ClassOps', 'mc',
                           0),
                          ('Chain', 6, 'Args1', True, False, 'ClassOps', 'mc',
                           0),
                          ('Mixin', 20, 'Args12', True, False, 'AllOps',
                           'sim', 5000)],
    ('C13', 'quick'): [('Two', 4, 'Args1', False, True, 'AllOps', 'mc', 0),
                       ('Two', 4, 'Args1', False, False, 'ClassOps', 'mce',
                        0),
                       ('TwoB', 4, 'Args1', False, False, 'AllOps', 'mc', 0),
                       ('TwoF', 4, 'Args1', False, True, 'AllOps', 'mc', 0),
                       ('Chain', 10, 'Args12', False, True, 'AllOps', 'sim',
                        200),
                       ('Mixin', 10, 'Args12', False, True, 'AllOps', 'sim',
                        150)],
    ('C13', 'thorough'): [('Two', 5, 'Args12', False, True, 'AllOps', 'mc', 0),
                          ('TwoB', 5, 'Args12', False, False, 'AllOps', 'mc',
                           0),
                          ('Chain', 4, 'Args1', False, True, 'AllOps', 'mc',
                           0),
                          ('Mixin', 15, 'Args12', False, True, 'AllOps',
                           'sim', 3000)],
}


def main(pid, tier):
    v = Verdict(pid, tier)
    v.cov['rule'] = (
        'cases = one shortest behaviour per reachable abstract state of '
        'MC_Declarations (depth-bounded, all declaration calls on all '
        'classes/instances) plus random long behaviours; after the last '
        'step every observable of the property is compared with the '
        '[must, may] interval the spec derives from the declaration '
        'history; non-trivial = behaviours of >= 3 steps' + (
            '; plus (code -> spec) traces recorded from the real code - the '
            'repository documentation run as doctests and seeded random '
            'programs with re-based interfaces and declarations made from '
            'inside change notifications - validated by TraceDeclarations.tla '
            '(coverage.recorded_traces)' if pid == 'C01' else ''))
    v.assumptions = [
        'specification orders/implied sets equal what current bases define '
        '(C02/C03)', 'bounded class shapes: two-class, chain+sibling, '
        'diamond, mixin; 3 interfaces; <= 3 instances']
    with Build() as build:
        exhaustive = run(pid, tier, v, build)
        if pid == 'C01':
            # code -> spec: traces recorded from the real code (random
            # drivers over larger universes, the repository's own doctests)
            # validated by TraceDeclarations.tla
            import trace_declarations
            trace_declarations.validate(build, v, pid, tier)
    v.cov['exhaustive'] = exhaustive
    return v.finish()


def run(pid, tier, v, build, plan=None):
    exhaustive = True
    budget = 40000 if tier == 'quick' else 10 ** 9
    if True:
        for (shape, depth, args, wsup, wcp, ops, kind, num) in \
                (plan or PLAN)[(pid, tier)]:
            pyb, cof, nc, no, pybd, cofd = SHAPES[shape]
            consts = {'NI': 3, 'IBases': '<-IB_3', 'NC': nc,
                      'PyBases': '<-' + pyb, 'NO': no, 'ClassOf': '<-' + cof,
                      'PinnedC01': 'FALSE', 'PinnedC13': 'FALSE',
                      'MaxDepth': depth if kind != 'sim' else 1000,
                      'ArgLists': '<-' + args, 'WithSuper': tla_bool(wsup),
                      'WithClassProv': tla_bool(wcp), 'Ops': '<-' + ops}
            edges = (kind == 'mce')
            cfg = make_cfg(build.dir, 'decl', consts, init='MCInit',
                           view='View', constraint='Bound',
                           invariants=INVS + ['Dump'],
                           action_constraint='EmitHist' if edges else None,
                           properties=['Unrelated'] if kind != 'sim' else [])
            name = '%s %s depth=%d %s %s' % (kind, shape, depth, args, ops)
            if kind != 'sim':
                res = run_tlc('MC_Declarations', cfg, scratch=build.dir,
                              timeout=3000,
                              workers=1 if tier == 'quick' else None)
            else:
                res = run_tlc('MC_Declarations', cfg, scratch=build.dir,
                              simulate=num, depth=depth, seed_=seed(),
                              timeout=3000)
            v.add_tlc(res, name)
            if res.violated:
                raise MachineryError(
                    'model-level violation of %s in %s:\n%s' % (
                        res.violated, name, '\n'.join(res.trace[:60])))
            cases = []
            if kind == 'mc':
                for r in res.lines:
                    if not r['hist']:
                        continue
                    steps = [{'act': a} for a in r['hist']]
                    steps[-1]['obs'] = r['obs']
                    cases.append({'steps': steps})
            elif kind == 'mce':
                obs = {json.dumps(r['key'], sort_keys=True): r['obs']
                       for r in res.lines if r.get('kind') == 'obs'}
                for r in res.lines:
                    if r.get('kind') != 'edge':
                        continue
                    o = obs.get(json.dumps(r['key'], sort_keys=True))
                    if o is None:
                        continue
                    steps = [{'act': a} for a in r['hist']]
                    steps[-1]['obs'] = o
                    cases.append({'steps': steps})
            else:
                # random behaviours print every state; keep the maximal ones
                # (a behaviour's last state)
                prev = None
                for r in res.lines:
                    if prev is not None and len(r['hist']) <= len(prev['hist']):
                        cases.append(prev)
                    prev = r
                if prev is not None:
                    cases.append(prev)
                cases = [{'steps': [dict(act=a) for a in c['hist'][:-1]] +
                          [{'act': c['hist'][-1], 'obs': c['obs']}]}
                         for c in cases if c['hist']]
            v.cov['distinct_nontrivial'] += sum(
                1 for c in cases if len(c['steps']) >= 3)
            rnd = random.Random(seed())
            if len(cases) > budget:
                cases = rnd.sample(cases, budget)
                exhaustive = False
            if kind == 'sim':
                exhaustive = exhaustive and tier != 'quick'
            jobs = []
            for implv in ('c', 'py'):
                for si, sh in enumerate(shard(cases, NCPU // 2)):
                    jobs.append((implv, {
                        'props': [pid] if pid != 'C10' else
                        ['C01', 'C13', 'C19'], 'ibases': IB3, 'pybases': pybd,
                        'classof': cofd, 'cases': sh, 'shard': si,
                        'builtin': {'1': 'complex'} if shape == 'TwoB'
                        else {},
                        'falsy_classes': shape == 'TwoF',
                        # every other shard: declarations in use are watched
                        # (they have dependents, as under a lookup cache)
                        'watch': si % 2 == 1,
                        'seed': seed() * 100 + si}))
            for (implv, job), r in zip(jobs, run_children(
                    build, 'replay_declarations.py', jobs)):
                if 'crash' in r:
                    v.violation('%s replay crashed with signal %s (%s)' % (
                        pid, r['crash'], implv), r)
                    continue
                v.cov['evaluations'] += r['evaluations']
                for m in r['mismatches']:
                    sig = '%s %s %s expected=%s got=%s ctx=%s' % (
                        pid, m['impl'], m['what'], json.dumps(m['expected']),
                        json.dumps(m['got']),
                        json.dumps(m['ctx'], sort_keys=True)[:1500])
                    v.violation(sig, m, one_case(
                        'replay_declarations.py', implv, job, m))
            v.cov['traces_validated_against_impl'] += 2 * len(cases)
            if cases:
                v.sample({'config': name, 'behaviour': [
                    s['act'] for s in cases[-1]['steps']]})
    return exhaustive


C10_PLAN = {
    ('C10', 'quick'): [('Mixin', 12, 'Args12', True, True, 'AllOps', 'sim',
                        300)],
    ('C10', 'thorough'): [('Mixin', 20, 'Args12', True, True, 'AllOps', 'sim',
                           5000),
                          ('Diamond', 20, 'Args12', True, True, 'AllOps',
                           'sim', 5000)],
}


if __name__ == '__main__':
    try:
        sys.exit(main(sys.argv[1], sys.argv[2]))
    except MachineryError as e:
        print('MACHINERY FAILURE: %s' % e)
        sys.exit(2)
