#!/bin/bash
# try_wt.sh <patch.diff> <Cnn> [tier]: apply a seeded change to the private worktree /tmp/wt/mine, run the check
# against it (VERIF_REPO), undo the change.  /repo itself is never touched.
P=$(realpath $1); ID=$2; T=${3:-quick}
WT=${WT:-mine}; W=/tmp/wt/$WT
[ -d $W ] || /verif/harness/mkwt.sh $WT >/dev/null 2>&1
git -C $W reset -q --hard $(git -C /repo rev-parse HEAD)
if ! git -C $W apply --check "$P" 2>/dev/null; then echo "PATCH DOES NOT APPLY: $P"; exit 9; fi
git -C $W apply "$P"
mkdir -p /tmp/try_evidence_$WT; cd /verif && VERIF_EVIDENCE_DIR=/tmp/try_evidence_$WT VERIF_REPO=$W timeout 1800 ./check $ID --tier $T > /tmp/try_${WT}_$ID.out 2>&1
rc=$?
git -C $W reset -q --hard
echo "rc=$rc violations=$(grep -c "^VIOLATION" /tmp/try_${WT}_$ID.out) known=$(grep -c "^KNOWN-FINDING" /tmp/try_${WT}_$ID.out)"
grep -E "^VIOLATION|MACHINERY" /tmp/try_${WT}_$ID.out | head -2 | cut -c1-200
