"""Child: the interior of an uncached lookup interrupted by one complete
mutation (spec/LookupWalk.tla).  Every case = registry contents (built in
the registration order the specification chose), one mutation, one walker;
the mutation is injected at EVERY container access of the walk in turn
(through the documented _mappingType hook) and the answer is compared with
the two admissible answers TLC computed.

job = {"flavour": "push"|"verify", "cases": [...]}
"""
import childlib
impl = childlib.boot()

from zope.interface import Interface
from zope.interface.adapter import AdapterRegistry, VerifyingAdapterRegistry
from zope.interface.interface import InterfaceClass

job = childlib.job()
evaluations = 0
mismatches = []
audits = [0]
HOOK = {'armed': False, 'count': 0, 'at': None, 'do': None}


def mism(ctx, what, expected, got):
    if len(mismatches) < 60:
        mismatches.append({'ctx': ctx, 'what': what, 'expected': expected,
                           'got': got, 'impl': impl,
                           'case_idx': childlib.CASE[0]})


class HookedMap(dict):
    """a mapping whose access runs other code (a persistent mapping loading
    its state, another thread getting its turn)"""

    def get(self, key, default=None):
        hook_point()
        return dict.get(self, key, default)


AUDIT = {'on': False, 'lookup': None, 'events': []}


def container_refs():
    """reference count of the (single) cache dictionary of the C lookup
    object, or None when it cannot be told apart"""
    import gc
    import sys
    lk = AUDIT['lookup']
    known = [getattr(lk, '_required', None), getattr(lk, '_extendors', None),
             getattr(lk, '__dict__', None)]
    cands = [d for d in gc.get_referents(lk)
             if type(d) is dict and '_registry' not in d and
             all(d is not k for k in known)]
    if len(cands) != 1:
        return None
    return sys.getrefcount(cands[0])


def hook_point(kind='get'):
    if HOOK['armed'] and AUDIT['on']:
        AUDIT['events'].append((kind, container_refs()))
    if HOOK['armed']:
        HOOK['count'] += 1
        if HOOK['count'] == HOOK['at']:
            HOOK['armed'] = False
            HOOK['do']()
            HOOK['armed'] = True


class HookedInterface(InterfaceClass):
    """an interface whose hash is computed by Python code (every dictionary
    access keyed by it -- the lookup caches, the table of extendor lists --
    is then a point where other code runs)"""

    def __hash__(self):
        hook_point('hash')
        return InterfaceClass.__hash__(self)


class Hooked:
    _mappingType = HookedMap


class HAR(Hooked, AdapterRegistry):
    pass


class HVAR(Hooked, VerifyingAdapterRegistry):
    pass


class V:
    def __init__(self, vid):
        self.vid = vid

    def __repr__(self):
        return 'V%d' % self.vid


class World:
    serial = 0

    def __init__(self, case):
        World.serial += 1
        mod = 'walkworld%d' % World.serial
        self.R = {1: InterfaceClass('R1', (Interface,), __module__=mod)}
        self.R[2] = InterfaceClass('R2', (self.R[1],), __module__=mod)
        # (every other case: the looked-up provided interface hashes through
        # Python code)
        PC = HookedInterface if (childlib.CASE[0] or 0) % 2 else InterfaceClass
        self.P = {1: PC('P', (Interface,), __module__=mod)}
        self.P[2] = InterfaceClass('PA', (self.P[1],), __module__=mod)
        self.P[3] = InterfaceClass('PB', (self.P[1],), __module__=mod)
        self.reg = (HAR if job['flavour'] == 'push' else HVAR)()
        self.kind = case['kind']
        self.vals = {}
        for p in case['order']:
            for r in (1, 2):
                v = case['leaf'][r - 1][p - 1]
                if v:
                    self.put(r, p, v)

    def val(self, vid):
        return self.vals.setdefault(vid, V(vid))

    def put(self, r, p, v):
        if self.kind == 'lookup':
            self.reg.register([self.R[r]], self.P[p], '', self.val(v))
        else:
            self.reg.subscribe([self.R[r]], self.P[p], self.val(v))

    def drop(self, r, p):
        if self.kind == 'lookup':
            self.reg.unregister([self.R[r]], self.P[p], '')
        else:
            self.reg.unsubscribe([self.R[r]], self.P[p])

    def mutate(self, m):
        if m['op'] == 'add':
            self.put(m['r'], m['p'], 10 * m['r'] + m['p'])
        else:
            self.drop(m['r'], m['p'])

    def ask(self):
        if self.kind == 'lookup':
            x = self.reg.lookup((self.R[2],), self.P[1], '')
            return 0 if x is None else x.vid
        return [x.vid for x in self.reg.subscriptions((self.R[2],),
                                                      self.P[1])]


def run_case(case):
    global evaluations
    ctx = {k: case[k] for k in ('leaf', 'order', 'kind', 'mut')}
    # dry run: how many container accesses does the walk make?
    w = World(case)
    HOOK.update(armed=True, count=0, at=None, do=None)
    AUDIT.update(on=(impl == 'c'), lookup=w.reg._v_lookup, events=[])
    try:
        got = w.ask()
    finally:
        HOOK['armed'] = False
        AUDIT['on'] = False
    n = HOOK['count']
    # ownership audit (C): the first event of a lookup whose provided key
    # hashes through Python code is the hashing INTO the top-level cache
    # dictionary; the frame must hold that dictionary itself then (one
    # reference more than during the walk, when only the lookup object
    # holds it), or a changed() run by the hash frees it under the frame
    ev = AUDIT['events']
    if ev and ev[0][0] == 'hash' and ev[0][1] is not None:
        walk = [r for k, r in ev if k == 'get' and r is not None]
        if walk:
            audits[0] += 1
            if ev[0][1] < walk[0] + 1:
                mism(ctx, 'ownership of the cache dictionary while the '
                     'provided key is hashed into it (references held, '
                     'relative to the walk)', walk[0] + 1, ev[0][1])
    evaluations += 1
    if got != case['before']:
        mism(ctx, 'uninterrupted answer', case['before'], got)
        return
    for k in range(1, n + 1):
        w = World(case)
        HOOK.update(armed=True, count=0, at=k,
                    do=lambda: w.mutate(case['mut']))
        try:
            got = w.ask()
        finally:
            HOOK['armed'] = False
        evaluations += 1
        if got != case['before'] and got != case['after']:
            mism(dict(ctx, interrupted_at_access=k, of=n),
                 'answer of a walk interrupted by one mutation',
                 {'before': case['before'], 'after': case['after']}, got)
        again = w.ask()
        if again != case['after']:
            mism(dict(ctx, interrupted_at_access=k, of=n),
                 'answer asked again after the interrupted walk',
                 case['after'], again)


for childlib.CASE[0], case in enumerate(job['cases']):
    try:
        run_case(case)
    except Exception as e:      # raised by the code under test
        import traceback
        tb = traceback.format_exc().strip().split('\n')
        mism({k: case[k] for k in ('leaf', 'order', 'kind', 'mut')},
             'unexpected exception', 'no exception',
             '%s: %s | %s' % (type(e).__name__, e, ' / '.join(tb[-6:])))
    if len(mismatches) >= 40:
        break

childlib.done({'evaluations': evaluations, 'mismatches': mismatches,
               'audits': audits[0]})
