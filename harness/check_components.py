"""C16: Components.tla checked by TLC (invariants RegistriesMatch,
QueriesMatchListings, RebuildFindsNothing, CounterExact; action properties
ListingsExact, EventsExact, ReturnValueExact); every transition of the
exhaustive configurations and every step of the -simulate behaviours replayed
into a real zope.interface.registry.Components under both implementations.

`python check_components.py C16 selftest` switches the seeded defects of the
specification on and expects TLC to refute the invariants."""
import json
import sys
from concurrent.futures import ThreadPoolExecutor

from common import (one_case, Build, MachineryError, Verdict, graph_paths, make_cfg,
                    run_children, run_tlc, seed, shard, split_behaviours,
                    NCPU)

BASE = dict(Defect='"none"', Ops='<-None', UKeys='<-None', UComps='<-None',
            UInfos='<-I0', UFacs='<-Fac0', EvFlags='<-EvT', AKeys='<-None',
            AFacts='<-None', AInfos='<-I0', SKeys='<-None', SFacts='<-None',
            SInfos='<-I0', HKeys='<-None', HFacts='<-None', HInfos='<-I0',
            MaxLive=3, MaxDepth=100, MaxEpoch=0)


def cfgd(**kw):
    d = dict(BASE)
    d.update(kw)
    return d


# the subscription counter: one provided interface, three names, equal /
# identical / hashable / unhashable components, re-initialisation
COUNTER = cfgd(Ops='<-OpsU', UKeys='<-UKeysNames', UComps='<-CompsEq')
# calls on a re-initialised object (states after __init__ kept distinct)
REINIT = cfgd(Ops='<-OpsU', UKeys='<-UKeysTwo', UComps='<-CompsReinit',
              MaxLive=2, MaxEpoch=1)
# provided chain PB(PA), info (replacement of an equal component), utility
# factories, event=False
CHAIN = cfgd(Ops='<-OpsU', UKeys='<-UKeysChain', UComps='<-CompsChain',
             UInfos='<-I01', UFacs='<-Fac01', EvFlags='<-EvTF', MaxLive=2)
CHAINU = cfgd(Ops='<-OpsU', UKeys='<-UKeysChain', UComps='<-CompsChainU',
              MaxLive=3)
# adapters + subscription adapters (replacement in place, equal factories,
# the same factory for two provided interfaces, required chain R2(R1))
ADAPT = cfgd(Ops='<-OpsAS', AKeys='<-AKeysSmall', AFacts='<-F12',
             AInfos='<-I01', SKeys='<-SKeysSmall', SFacts='<-F12',
             MaxLive=2)
# subscription adapters + handlers (sequences, duplicates, bulk removal)
SUBS = cfgd(Ops='<-OpsSH', SKeys='<-SKeysSmall', SFacts='<-F123',
            HKeys='<-HKeysAll', HFacts='<-F12', MaxLive=3)
EVERYTHING = cfgd(Ops='<-OpsAll', UKeys='<-UKeysAll', UComps='<-CompsAll',
                  UInfos='<-I01', UFacs='<-Fac01', EvFlags='<-EvTF',
                  AKeys='<-AKeysAll', AFacts='<-F123', AInfos='<-I01',
                  SKeys='<-SKeysAll', SFacts='<-F123', SInfos='<-I01',
                  HKeys='<-HKeysAll', HFacts='<-F123', HInfos='<-I01',
                  MaxLive=7)

INVS = ['TypeOK', 'RegistriesMatch', 'QueriesMatchListings',
        'RebuildFindsNothing', 'CounterExact']
PROPS = ['ListingsExact', 'EventsExact', 'ReturnValueExact']

# tier -> list of (name, kind, constants, options)
PLAN = {
    'quick': [
        ('counter live<=3', 'edges', COUNTER, {}),
        ('after re-init live<=2', 'edges', REINIT, {}),
        ('chain live<=2 event=True', 'edges', dict(CHAIN, EvFlags='<-EvT'),
         {}),
        ('adapters+subscriptions live<=2', 'edges', ADAPT, {}),
        ('subscriptions+handlers live<=3', 'edges',
         dict(SUBS, SFacts='<-F12'), {}),
        ('everything sim', 'sim', EVERYTHING, dict(num=60, depth=40)),
    ],
    'thorough': [
        ('counter live<=3', 'edges', COUNTER, {}),
        ('counter PA x3 names + PB live<=3', 'edges',
         dict(COUNTER, UKeys='<-UKeysNamesB'), {}),
        ('after re-init live<=3', 'edges',
         dict(REINIT, UKeys='<-UKeysNames', MaxLive=3), {}),
        ('chain live<=2', 'edges', CHAIN, {}),
        ('chain unhashable live<=3', 'edges', CHAINU, {}),
        ('adapters+subscriptions live<=3', 'edges',
         dict(ADAPT, MaxLive=3), {}),
        ('subscriptions+handlers live<=3', 'edges', SUBS, {}),
        ('everything sim', 'sim', EVERYTHING, dict(num=2500, depth=60)),
        ('utilities sim', 'sim',
         dict(EVERYTHING, Ops='<-OpsU', MaxLive=6), dict(num=1500, depth=60)),
    ],
}

SELFTEST = [
    ('counter_by_identity', dict(COUNTER, Defect='"counter_by_identity"')),
    ('unsub_ignores_provided', dict(ADAPT,
                                    Defect='"unsub_ignores_provided"')),
]


def compact(act):
    return {k: w for k, w in act.items()
            if k in ('op', 'n') or (k == 'ev' and w is False) or
            (k != 'ev' and w not in (0, ''))}


def run_replay(build, v, cases):
    if not cases:
        return
    jobs = []
    for implv in ('c', 'py'):
        for sh in shard(cases, max(1, NCPU // 2)):
            jobs.append((implv, {'cases': sh, 'guard': True}))
    for (implv, job), r in zip(jobs, run_children(build,
                                                  'replay_components.py',
                                                  jobs)):
        if 'crash' in r:
            v.violation('C16 replay crashed with signal %s (%s)' % (
                r['crash'], implv), r)
            continue
        if r['guard_failures']:
            raise MachineryError(
                'the specification\'s expected query answers disagree with '
                'adapter registries populated from the listed registrations '
                '(spec error, or C04/C07 broken): ' +
                json.dumps(r['guard_failures'][:2])[:3000])
        v.cov['evaluations'] += r['evaluations']
        for m in r['mismatches']:
            sig = 'C16 %s %s expected=%s got=%s ctx=%s' % (
                m['impl'], m['what'], json.dumps(m['expected']),
                json.dumps(m['got']),
                json.dumps(m['ctx'], sort_keys=True)[:1500])
            v.violation(sig, m, one_case('replay_components.py', implv,
                                         job, m))
    v.cov['traces_validated_against_impl'] += 2 * len(cases)


def tlc(build, consts, kind, opt, idx=0):
    cfg = make_cfg(build.dir, 'comp%d' % idx, consts, view='View',
                   constraint='Bound', action_constraint='Emit',
                   invariants=INVS + ['DumpState'], properties=PROPS)
    if kind == 'edges':
        return run_tlc('MC_Components', cfg, scratch=build.dir, timeout=3000)
    return run_tlc('MC_Components', cfg, scratch=build.dir,
                   simulate=opt['num'], depth=opt['depth'], seed_=seed(),
                   timeout=3000)


def selftest():
    """the seeded defects of the specification must be refuted by TLC"""
    ok = True
    with Build() as build:
        for name, consts in SELFTEST:
            cfg = make_cfg(build.dir, 'self', consts, view='View',
                           constraint='Bound', invariants=INVS,
                           properties=PROPS)
            res = run_tlc('MC_Components', cfg, scratch=build.dir,
                          timeout=600)
            print('selftest %s: %s' % (name, res.violated or 'NOT REFUTED'))
            ok = ok and bool(res.violated)
    return 0 if ok else 2


def main(pid, tier):
    v = Verdict(pid, tier)
    v.cov['rule'] = (
        'cases = transitions of the exhaustive MC_Components configurations '
        '(each replayed from a fresh Components along the BFS tree path to '
        'its source state; listings, all queries, events, return value and '
        'the rebuild probe compared after the transition, events and return '
        'value after every step of the path) and -simulate behaviours '
        '(everything compared after every step), x 2 implementations; '
        'non-trivial = the call sequence has at least three calls; '
        'exhaustive refers to the bounded configurations (all reachable '
        'states, all transitions replayed), the -simulate behaviours are '
        'additional samples of longer mixed histories')
    v.assumptions = [
        'bounded universe: 5 components (2 equal hashable, 2 equal '
        'unhashable), PB(PA), names "", "n", "m", R2(R1), 3 factories '
        '(2 equal); MaxLive bounds the number of listed registrations',
        'events are read per call (DESIGN.md C16 notes): registerAdapter '
        'always emits exactly one Registered (also when it replaces or '
        'repeats a registration in place), unregisterSubscriptionAdapter / '
        'unregisterHandler emit one Unregistered for the group they remove; '
        'the component carried by Unregistered of unregisterUtility('
        'component) is any member of the equality class',
        'getAllUtilitiesRegisteredFor is compared as a multiset of equality '
        'classes (one per provided interface and class with a live '
        'registration); listings and subscribers()/handle() as multisets',
        'required / provided / name derivation from the component or '
        'factory (arguments omitted), __bases__ of Components and '
        'subclass hooks are outside the universe']
    exhaustive = True
    plan = PLAN[tier]
    with Build() as build, ThreadPoolExecutor(max_workers=4) as pool:
        # the simulator is single-threaded: let those runs proceed in the
        # background while the exhaustive configurations are processed
        pending = {i: pool.submit(tlc, build, c, k, o, i)
                   for i, (_, k, c, o) in enumerate(plan) if k == 'sim'}
        for i, (name, kind, consts, opt) in enumerate(plan):
            res = pending[i].result() if i in pending else \
                tlc(build, consts, kind, opt, i)
            v.add_tlc(res, name)
            if res.violated:
                raise MachineryError(
                    'model-level violation of %s in %s (the specification '
                    'of the mechanism does not satisfy the property):\n%s'
                    % (res.violated, name, '\n'.join(res.trace[:60])))
            cases = []
            trans = [r for r in res.lines if 'lvl' in r]
            obs_of = {json.dumps(r['key'], sort_keys=True): r['obs']
                      for r in res.lines if 'key' in r}

            def step(x, with_obs):
                st = {'act': x['act'], 'ev': x['ev'], 'ret': x['ret']}
                if with_obs:
                    k = json.dumps(x['to'], sort_keys=True)
                    if k not in obs_of:
                        raise MachineryError('no state dump for the target '
                                             'of a transition in ' + name)
                    st['obs'] = obs_of[k]
                return st
            if kind == 'edges':
                if len(trans) != res.generated - 1 or \
                        len(obs_of) != res.distinct:
                    raise MachineryError(
                        'dump incomplete in %s: %d transitions of %d, %d '
                        'states of %d' % (name, len(trans), res.generated - 1,
                                          len(obs_of), res.distinct))
                root, tree, edges = graph_paths(trans)
                for e in edges:
                    if e['_fk'] not in tree:
                        raise MachineryError('unreachable source state')
                    path = tree[e['_fk']] + [e]
                    cases.append({'steps': [step(x, False) for x in path[:-1]]
                                  + [step(e, True)]})
                    if len(path) >= 3:
                        v.cov['distinct_nontrivial'] += 1
            else:
                # TLC's simulator evaluates the action constraint twice for
                # some steps: drop a record identical to its predecessor
                dedup = [r for i, r in enumerate(trans)
                         if i == 0 or r != trans[i - 1]]
                for beh in split_behaviours(dedup):
                    for a, b in zip(beh, beh[1:]):
                        if a['to'] != b['from'] or b['lvl'] != a['lvl'] + 1:
                            raise MachineryError('simulation dump is not a '
                                                 'chain of steps in ' + name)
                    cases.append({'steps': [step(x, True) for x in beh]})
                    if len(beh) >= 3:
                        v.cov['distinct_nontrivial'] += 1
            run_replay(build, v, cases)
            if cases:
                v.sample({'config': name, 'behaviour': [
                    compact(s['act']) for s in cases[-1]['steps']]})
    v.cov['exhaustive'] = exhaustive
    return v.finish()


if __name__ == '__main__':
    try:
        if sys.argv[2] == 'selftest':
            sys.exit(selftest())
        sys.exit(main(sys.argv[1], sys.argv[2]))
    except MachineryError as e:
        print('MACHINERY FAILURE: %s' % e)
        sys.exit(2)
