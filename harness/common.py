"""Shared machinery: out-of-tree build of /repo's working tree, child
interpreters bound to that build, TLC runner + output parsing, evidence and
known-findings handling.  Standard library only."""
import contextlib
import hashlib
import json
import os
import re
import shutil
import subprocess
import sys
import tempfile
import time

VERIF = os.path.dirname(os.path.dirname(os.path.abspath(__file__)))
REPO = os.environ.get('VERIF_REPO', '/repo')
PY = '/venv/bin/python'
SPEC = os.path.join(VERIF, 'spec')
NCPU = min(16, os.cpu_count() or 4)


class MachineryError(Exception):
    """Something in the verification machinery failed (exit 2, never a
    VIOLATION)."""


def seed():
    try:
        return int(os.environ.get('VERIF_SEED', '0'))
    except ValueError:
        return 0


# --------------------------------------------------------------------------
# build

class Build:
    """rsync /repo/src to a scratch dir outside /repo and /verif, compile the C
    extension there, provide child interpreters bound to it."""

    def __init__(self):
        self.dir = None

    def __enter__(self):
        base = os.environ.get('VERIF_SCRATCH') or tempfile.gettempdir()
        self.dir = tempfile.mkdtemp(prefix='zi_verif_', dir=base)
        try:
            self._build()
        except BaseException:
            shutil.rmtree(self.dir, ignore_errors=True)
            raise
        return self

    def __exit__(self, *exc):
        shutil.rmtree(self.dir, ignore_errors=True)

    def _build(self):
        src = os.path.join(self.dir, 'src')
        r = subprocess.run(['rsync', '-a', '--exclude', '*.so', '--exclude',
                            '__pycache__', os.path.join(REPO, 'src') + '/',
                            src + '/'], capture_output=True, text=True)
        if r.returncode:
            raise MachineryError('rsync failed: ' + r.stderr)
        inc = subprocess.check_output(
            [PY, '-c', "import sysconfig;print(sysconfig.get_paths()"
             "['include']);print(sysconfig.get_config_var('EXT_SUFFIX'))"],
            text=True).split()
        cfile = os.path.join(src, 'zope/interface/'
                             '_zope_interface_coptimizations.c')
        out = os.path.join(src, 'zope/interface/'
                           '_zope_interface_coptimizations' + inc[1])
        r = subprocess.run(['gcc', '-shared', '-fPIC', '-O1', '-g', '-w',
                            '-I' + inc[0], cfile, '-o', out],
                           capture_output=True, text=True)
        if r.returncode:
            raise MachineryError('C extension does not compile:\n' +
                                 r.stderr[-3000:])
        boot = os.path.join(self.dir, 'boot')
        os.makedirs(boot)
        with open(os.path.join(boot, 'sitecustomize.py'), 'w') as f:
            f.write("import zope\nzope.__path__.insert(0, %r)\n"
                    % os.path.join(src, 'zope'))
        self.src = src
        self.boot = boot

    def env(self, impl, extra=None):
        e = dict(os.environ)
        e['PYTHONPATH'] = self.boot + os.pathsep + \
            os.path.join(VERIF, 'harness')
        e['PYTHONHASHSEED'] = e.get('PYTHONHASHSEED', '0')
        e['VERIF_EXPECT_SRC'] = self.src
        e['VERIF_IMPL'] = impl
        e.pop('PURE_PYTHON', None)
        if impl == 'py':
            e['PURE_PYTHON'] = '1'
        for k in list(e):
            if k.startswith('ZOPE_INTERFACE_'):
                del e[k]
        if extra:
            e.update(extra)
        return e

    def child(self, impl, script, job, timeout=3600, extra_env=None):
        """Run harness/<script> in a child bound to the build; job (JSON) on
        stdin, JSON result on stdout."""
        p = subprocess.run([PY, os.path.join(VERIF, 'harness', script)],
                           input=json.dumps(job), capture_output=True,
                           text=True, env=self.env(impl, extra_env),
                           timeout=timeout)
        return p

    def popen(self, impl, script, extra_env=None, **kw):
        return subprocess.Popen([PY, os.path.join(VERIF, 'harness', script)],
                                env=self.env(impl, extra_env), **kw)


def run_children(build, script, jobs, timeout=3600):
    """jobs: list of (impl, jobdict). Runs them concurrently (<= NCPU at a
    time); returns list of result dicts. A child that fails to produce JSON is
    a machinery error unless it died from a signal, which is reported as
    {'crash': signal}."""
    results = [None] * len(jobs)
    running = []
    idx = 0

    def start(i):
        impl, job = jobs[i]
        p = build.popen(impl, script, stdin=subprocess.PIPE,
                        stdout=subprocess.PIPE, stderr=subprocess.PIPE,
                        text=True)
        return (i, p, json.dumps(job))

    import threading

    def work(i, p, data):
        try:
            out, err = p.communicate(data, timeout=timeout)
        except subprocess.TimeoutExpired:
            p.kill()
            out, err = p.communicate()
            results[i] = {'machinery': 'timeout', 'stderr': err[-2000:]}
            return
        if p.returncode < 0:
            results[i] = {'crash': -p.returncode, 'stderr': err[-2000:],
                          'stdout': out[-2000:]}
            return
        try:
            results[i] = json.loads(out)
        except Exception:
            results[i] = {'machinery': 'child rc=%s' % p.returncode,
                          'stderr': err[-4000:], 'stdout': out[-2000:]}

    threads = []
    sem = threading.Semaphore(NCPU)

    def runner(i):
        with sem:
            _, p, data = start(i)
            work(i, p, data)

    for i in range(len(jobs)):
        t = threading.Thread(target=runner, args=(i,))
        t.start()
        threads.append(t)
    for t in threads:
        t.join()
    for r in results:
        if r is not None and 'machinery' in r:
            raise MachineryError('child failed: %s\n%s\n%s' % (
                r['machinery'], r.get('stderr'), r.get('stdout')))
    return results


# --------------------------------------------------------------------------
# TLC

class TLCResult:
    def __init__(self):
        self.ok = False
        self.violated = None       # name of violated invariant/property
        self.generated = 0
        self.distinct = 0
        self.depth = 0
        self.lines = []            # decoded JSON records printed by the spec
        self.coverage = {}         # action -> (distinct, total)
        self.raw_tail = ''
        self.raw = ''
        self.cmd = ''
        self.wall = 0.0
        self.trace = []            # counterexample text lines


_JSON_LINE = re.compile(r'^"(\{.*\})"$')


def run_tlc(module, cfg=None, workers=None, simulate=None, depth=None,
            seed_=None, timeout=3600, env=None, coverage=False,
            keep_output=False, scratch=None, jvm=None, deadlock=True):
    """Run TLC on spec/<module>.tla with spec/<cfg or module>.cfg."""
    t0 = time.time()
    own = None
    if scratch is None:
        own = scratch = tempfile.mkdtemp(prefix='zi_tlc_')
    meta = tempfile.mkdtemp(prefix='meta_', dir=scratch)
    cmd = ['tlc', '-metadir', meta, '-noGenerateSpecTE',
           '-config', cfg if (cfg and cfg.endswith('.cfg'))
           else (cfg or module) + '.cfg']
    if not deadlock:
        cmd += ['-deadlock']
    if simulate:
        # -generate picks ONE random successor per step; -simulate enumerates
        # (and evaluates invariants / action constraints, i.e. dumps) every
        # candidate successor first: measured 20x slower, same behaviours
        mode = os.environ.get('VERIF_TLC_RANDOM_MODE', '-generate')
        cmd += [mode, 'num=%d' % simulate, '-depth', str(depth or 20),
                '-workers', '1']
        if seed_ is not None:
            cmd += ['-seed', str(seed_)]
    else:
        cmd += ['-workers', str(workers or NCPU)]
    if coverage:
        cmd += ['-coverage', '1']
    cmd += [module + '.tla']
    e = dict(os.environ)
    if jvm:
        e['JAVA_TOOL_OPTIONS'] = jvm
    if env:
        e.update(env)
    res = TLCResult()
    res.cmd = ' '.join(cmd)
    try:
        p = subprocess.Popen(cmd, cwd=SPEC, env=e, stdout=subprocess.PIPE,
                             stderr=subprocess.STDOUT, text=True)
        other = []
        try:
            for line in p.stdout:
                line = line.rstrip('\n')
                m = _JSON_LINE.match(line)
                if m:
                    try:
                        res.lines.append(json.loads(json.loads(line)))
                        continue
                    except Exception:
                        pass
                other.append(line)
                if len(other) > 20000:
                    del other[:10000]
            p.wait(timeout=timeout)
        finally:
            if p.poll() is None:
                p.kill()
    finally:
        shutil.rmtree(meta, ignore_errors=True)
        if own:
            shutil.rmtree(own, ignore_errors=True)
    text = '\n'.join(other)
    res.raw_tail = text[-6000:]
    res.raw = text
    res.wall = time.time() - t0
    m = re.search(r'(\d+) states generated, (\d+) distinct states found',
                  text)
    if m:
        res.generated, res.distinct = int(m.group(1)), int(m.group(2))
    m = re.search(r'The number of states generated: (\d+)', text)
    if m and not res.generated:
        res.generated = int(m.group(1))
        res.distinct = len({json.dumps(r.get('to'), sort_keys=True)
                            for r in res.lines if isinstance(r, dict)})
    m = re.search(r'depth of the complete state graph search is (\d+)', text)
    if m:
        res.depth = int(m.group(1))
    m = re.search(r'Error: Invariant (\S+) is violated', text)
    if m:
        res.violated = m.group(1)
    m2 = re.search(r'Error: Action property (\S+) is violated', text)
    if m2:
        res.violated = m2.group(1)
    if 'Temporal properties were violated' in text:
        res.violated = res.violated or 'temporal'
    if 'Deadlock reached' in text:
        res.violated = res.violated or 'deadlock'
    if res.violated:
        i = text.find('Error:')
        res.trace = text[i:i + 8000].split('\n')
    for m in re.finditer(r'^<(\w+) line .*?>: (\d+):(\d+)', text, re.M):
        res.coverage[m.group(1)] = (int(m.group(2)), int(m.group(3)))
    res.ok = ('Model checking completed. No error has been found' in text or
              (simulate and res.violated is None and p.returncode == 0)
              or (simulate and 'Finished in' in text and not res.violated))
    if not res.ok and not res.violated:
        raise MachineryError('TLC failed (%s):\n%s' % (res.cmd,
                                                       res.raw_tail[-3000:]))
    return res


# --------------------------------------------------------------------------
# evidence / findings / verdict

def load_known():
    p = os.path.join(VERIF, 'known_findings.json')
    if not os.path.exists(p):
        return {'findings': [], 'fixed': []}
    with open(p) as f:
        return json.load(f)


class Verdict:
    """Collects violations for one property; filters known findings; writes
    evidence; prints the protocol lines."""

    def __init__(self, pid, tier, level='model_checking'):
        self.pid = pid
        self.tier = tier
        self.level = level
        self.t0 = time.time()
        self.violations = []     # (signature, record)
        self.cov = {'states': 0, 'transitions': 0,
                    'traces_validated_against_impl': 0, 'samples': [],
                    'evaluations': 0, 'distinct_nontrivial': 0, 'rule': '',
                    'exhaustive': False}
        self.assumptions = []
        self.notes = {}

    def add_tlc(self, res, name):
        self.cov['states'] += res.distinct
        self.cov['transitions'] += res.generated
        self.notes.setdefault('tlc_runs', []).append({
            'config': name, 'generated': res.generated,
            'distinct': res.distinct, 'depth': res.depth,
            'wall_s': round(res.wall, 2), 'cmd': res.cmd,
            'coverage': {k: list(v) for k, v in res.coverage.items()}})

    def violation(self, signature, record, rejob=None):
        """rejob = (script, impl, job): the smallest child job that
        re-executes the failing case (stored in the replay file, re-run by
        `./check <id> --replay <file>` against a fresh build, without TLC:
        the admissible sets TLC computed are inside the job)."""
        if rejob is not None:
            record = dict(record) if isinstance(record, dict) else \
                {'record': record}
            record['_rejob'] = {'script': rejob[0], 'impl': rejob[1],
                                'job': rejob[2]}
        self.violations.append((signature, record))

    def sample(self, s, limit=6):
        if len(self.cov['samples']) < limit:
            self.cov['samples'].append(s)

    def finish(self):
        known = load_known()
        kf = [k for k in known.get('findings', [])
              if k.get('property') == self.pid]
        unknown = []
        reported = set()
        for sig, rec in self.violations:
            hit = None
            for k in kf:
                if re.search(k['match'], sig):
                    hit = k
                    break
            if hit is not None:
                if hit['id'] not in reported:
                    reported.add(hit['id'])
                    print('KNOWN-FINDING: property=%s %s' % (
                        self.pid, hit['what']))
            else:
                unknown.append((sig, rec))
        rc = 0
        if unknown:
            os.makedirs(os.path.join(VERIF, 'replays'), exist_ok=True)
            seen = set()
            for sig, rec in unknown:
                h = hashlib.sha1(sig.encode()).hexdigest()[:10]
                if h in seen:
                    continue
                seen.add(h)
                if len(seen) > 5:
                    break
                path = os.path.join(VERIF, 'replays',
                                    '%s-%s.json' % (self.pid, h))
                with open(path, 'w') as f:
                    json.dump({'property': self.pid, 'signature': sig,
                               'record': rec}, f, indent=1, default=str)
                print('VIOLATION property=%s replay=%s' % (self.pid, path))
                print('  ' + sig[:400])
            rc = 1
        ev = {
            'property_id': self.pid, 'tier': self.tier, 'seed': seed(),
            'level': self.level, 'coverage': dict(self.cov, **self.notes),
            'assumptions': self.assumptions,
            'wall_s': round(time.time() - self.t0, 2),
            'violations': len(unknown),
        }
        ev['coverage']['known_findings_reported'] = sorted(reported)
        if self.tier == 'replay':       # --replay never rewrites evidence
            return rc
        evdir = os.environ.get('VERIF_EVIDENCE_DIR') or \
            os.path.join(VERIF, 'evidence')
        os.makedirs(evdir, exist_ok=True)
        with open(os.path.join(evdir, self.pid + '.json'), 'w') as f:
            json.dump(ev, f, indent=1, default=str)
        return rc


def one_case(script, implv, job, m):
    """rejob argument for Verdict.violation: the child's job narrowed to the
    case the mismatch m came from."""
    idx = m.get('case_idx') if isinstance(m, dict) else None
    for key in ('cases', 'programs'):
        if idx is not None and isinstance(job.get(key), list) and \
                idx < len(job[key]):
            j = dict(job)
            j[key] = [job[key][idx]]
            return (script, implv, j)
    return None


def replay_generic(pid, path):
    """./check <id> --replay <file>: re-run the recorded child job against a
    fresh build of /repo's working tree."""
    with open(path) as f:
        data = json.load(f)
    rj = (data.get('record') or {}).get('_rejob')
    if not rj:
        print('replay file has no re-executable job: %s' % path)
        return 2
    v = Verdict(pid, 'replay')
    with Build() as build:
        r = run_children(build, rj['script'], [(rj['impl'], rj['job'])])[0]
    if 'crash' in r:
        v.violation('%s replay crashed with signal %s (%s)' % (
            pid, r['crash'], rj['impl']), r)
    for m in r.get('mismatches', []):
        sig = '%s %s %s expected=%s got=%s' % (
            pid, m.get('impl'), m.get('what'), json.dumps(m.get('expected')),
            json.dumps(m.get('got')))
        v.violation(sig, m, rejob=(rj['script'], rj['impl'], rj['job']))
    rc = v.finish()
    if rc == 0:
        print('replay: the recorded case no longer fails (%s)' % path)
    return rc


def shard(items, n):
    out = [[] for _ in range(n)]
    for i, it in enumerate(items):
        out[i % n].append(it)
    return [s for s in out if s]


# --------------------------------------------------------------------------
# transition-graph helpers

def graph_paths(records, keyf=None):
    """records: edge dumps with 'from', 'act', 'to', 'lvl'.  Returns
    (root_key, tree) where tree[key] = list of edge records from the root
    (BFS spanning tree), plus the de-duplicated edge list."""
    keyf = keyf or (lambda st: json.dumps(st, sort_keys=True))
    adj = {}
    edges = []
    seen_e = set()
    minlvl = min(r['lvl'] for r in records)
    root = None
    for r in records:
        fk, tk = keyf(r['from']), keyf(r['to'])
        ek = (fk, json.dumps(r['act'], sort_keys=True), tk)
        if ek in seen_e:
            continue
        seen_e.add(ek)
        r['_fk'], r['_tk'] = fk, tk
        adj.setdefault(fk, []).append(r)
        edges.append(r)
        if r['lvl'] == minlvl and root is None:
            root = fk
    tree = {root: []}
    queue = [root]
    while queue:
        nxt = []
        for k in queue:
            for r in adj.get(k, ()):
                if r['_tk'] not in tree:
                    tree[r['_tk']] = tree[k] + [r]
                    nxt.append(r['_tk'])
        queue = nxt
    return root, tree, edges


def join_obs(res, every=1):
    """edges and per-state observations are dumped separately (see
    MC_Registry.Emit); attach each edge's successor observation."""
    obs = {}
    edges = []
    for r in res.lines:
        if r.get('kind') == 'obs':
            obs[json.dumps(r['key'], sort_keys=True)] = r['obs']
        else:
            edges.append(r)
    for i, e in enumerate(edges):
        k = json.dumps(e['to'], sort_keys=True)
        if k not in obs:
            # successor beyond the depth bound: never expanded, not probed
            e['obs'] = None
        else:
            e['obs'] = obs[k]
    res.lines = edges
    res.n_obs = len(obs)


def split_behaviours(records):
    """-simulate dumps: lvl restarts at its minimum at each new behaviour."""
    out = []
    cur = []
    last = None
    for r in records:
        if last is not None and r['lvl'] <= last:
            out.append(cur)
            cur = []
        cur.append(r)
        last = r['lvl']
    if cur:
        out.append(cur)
    return out


def make_cfg(scratch, name, constants, invariants=(), properties=(),
             init='Init', next_='Next', view=None, constraint=None,
             action_constraint=None, deadlock=False, extra=()):
    """Write a TLC config into the scratch dir; returns its absolute path.
    constants: dict name -> literal text ('<-X' for substitution)."""
    lines = ['CONSTANTS']
    for k, v in constants.items():
        v = str(v)
        if v.startswith('<-'):
            lines.append('  %s <- %s' % (k, v[2:].strip()))
        else:
            lines.append('  %s = %s' % (k, v))
    lines += ['INIT ' + init, 'NEXT ' + next_]
    if view:
        lines.append('VIEW ' + view)
    if constraint:
        lines.append('CONSTRAINT ' + constraint)
    if action_constraint:
        lines.append('ACTION_CONSTRAINT ' + action_constraint)
    lines.append('CHECK_DEADLOCK ' + ('TRUE' if deadlock else 'FALSE'))
    for i in invariants:
        lines.append('INVARIANT ' + i)
    for i in properties:
        lines.append('PROPERTY ' + i)
    lines += list(extra)
    path = os.path.join(scratch, name + '.cfg')
    with open(path, 'w') as f:
        f.write('\n'.join(lines) + '\n')
    return path


def tla_bool(b):
    return 'TRUE' if b else 'FALSE'
