#!/bin/bash
# confirm_seed.sh <dir with patch.diff demo.py meta.json> : confirm a seeded change in the private worktree
# /tmp/wt/confirm: demo passes on the clean tree (C and Python), fails with the change, test suite at baseline.
# Prints one JSON object.
D=$(realpath $1); W=/tmp/wt/${WT:-confirm}
[ -d $W ] || /verif/harness/mkwt.sh ${WT:-confirm} >/dev/null 2>&1
cd $W; git reset -q --hard $(git -C /repo rev-parse HEAD)
build() { /venv/bin/python setup.py -q build_ext --inplace >/dev/null 2>&1; }
build
timeout 300 ./py $D/demo.py >/dev/null 2>&1; c0=$?
PURE_PYTHON=1 timeout 300 ./py $D/demo.py >/dev/null 2>&1; p0=$?
if ! git apply --check $D/patch.diff 2>/dev/null; then echo '{"error":"patch does not apply"}'; exit 9; fi
git apply $D/patch.diff; build; brc=$?
timeout 300 ./py $D/demo.py >/dev/null 2>&1; c1=$?
PURE_PYTHON=1 timeout 300 ./py $D/demo.py >/dev/null 2>&1; p1=$?
T=$(./py -m pytest -q -p no:cacheprovider --timeout=900 --continue-on-collection-errors 2>&1 | tail -1)
F=$(./py -m pytest -q -p no:cacheprovider --timeout=900 --continue-on-collection-errors 2>&1 | grep -c '^FAILED.*test_ro.py::Test_c3_ro')
git reset -q --hard; build
echo "{\"build_rc\":$brc,\"demo_exit_clean\":{\"c\":$c0,\"py\":$p0},\"demo_exit_with_change\":{\"c\":$c1,\"py\":$p1},\"test_suite_with_change\":\"$T\",\"c3_ro_failures\":$F}"
