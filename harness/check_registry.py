"""C04-C09: Registry.tla checked by TLC; TLC-generated states and behaviours
replayed into real AdapterRegistry / VerifyingAdapterRegistry objects under
both implementations."""
import json
import random
import sys

from common import (one_case, Build, MachineryError, Verdict, graph_paths, make_cfg,
                    run_children, run_tlc, seed, shard, split_behaviours,
                    tla_bool, join_obs, NCPU)

SB = {'SB_Diamond': {'0': [], '1': [], '2': [1], '3': [1], '4': [2, 3]},
      'SB_Chain2': {'0': [], '1': [], '2': [1]},
      'SB_One': {'0': [], '1': []}}
PB_FORK = [[], [1], [1]]
PB = {'PB_Fork': PB_FORK, 'PB_Tree4': [[], [1], [1], [2]]}
SB['SB_Chain3'] = {'0': [], '1': [], '2': [1], '3': [2]}
SB['SB_Three'] = {'0': [], '1': [], '2': [1], '3': []}
SB['SB_Empty'] = {'0': [], '1': [], '2': []}
RB = {'RB_Chain3Extra': [[], [1], [2], []],
      'RB_Overlap3': [[], [1], [2, 1]],
      'RB_None5': [[], [], [], [], []],
      'RB_Diamond5': [[], [], [2], [2], [3, 4]],
      'RB_One': [[]], 'RB_Two': [[], [1]], 'RB_None3': [[], [], []],
      'RB_None4': [[], [], [], []], 'RB_Chain3': [[], [1], [2]]}

BASE = dict(NS=4, NG=1, PBases='<-PB_Fork', Names='<-NamesEN',
            Vals='{1,2,3}', EqClass='<-EqId', Flavour='"push"',
            PinnedC06='FALSE', Muts='{}', Queries='{}', RegKeys='<-None',
            SubKeys='<-None', LookKeys='<-None', ValMode='"keyed"',
            MaxLive=2, MaxDepth=100, InitSBases='<-SB_Diamond',
            InitRBases='<-RB_One', RBaseChoices='<-None',
            SBaseChoices='<-None', ObsEvery=1, ViaAll='FALSE')


def cfgd(**kw):
    d = dict(BASE)
    d.update(kw)
    return d


ORDER = cfgd(Muts='{"reg","unreg"}', RegKeys='<-RegKeysOrder',
             LookKeys='<-LookKeysOrder')
SUBS = cfgd(NG=2, InitRBases='<-RB_Two', Muts='{"sub","unsub"}',
            SubKeys='<-SubKeysOrder', LookKeys='<-LookKeysSubs')
BOOKS = cfgd(NS=2, InitSBases='<-SB_Chain2', Muts='{"reg","regsame","unreg",'
             '"sub","unsub","rebuild"}', RegKeys='<-RegKeysBooks',
             SubKeys='<-SubKeysBooks', LookKeys='<-LookKeysBooks',
             ValMode='"any"', EqClass='<-Eq12', MaxLive=3, MaxDepth=5)
CACHE = cfgd(NS=2, NG=2, InitSBases='<-SB_Chain2', InitRBases='<-RB_Two',
             Muts='{"reg","unreg","sub","unsub","specbases","regbases"}',
             Queries='{"lookup","lookupAll","subs"}',
             RegKeys='<-RegKeysCache', SubKeys='<-SubKeysCache',
             LookKeys='<-LookKeysCache', RBaseChoices='<-RBaseChoicesCache',
             SBaseChoices='<-SBaseChoicesCache', MaxLive=2, MaxDepth=5)
CHAIN = cfgd(NS=1, NG=3, InitSBases='<-SB_One', InitRBases='<-RB_None3',
             Names='<-NamesE',
             Muts='{"reg","unreg","sub","regbases","rebuild"}',
             Queries='{"lookup","subs"}', RegKeys='<-RegKeysChain',
             SubKeys='<-SubKeysChain', LookKeys='<-LookKeysChain',
             RBaseChoices='<-RBaseChoices3s', MaxLive=2, MaxDepth=5)

EXT = cfgd(NS=1, InitSBases='<-SB_One', PBases='<-PB_Tree4', Names='<-NamesE',
           Muts='{"reg","unreg","relookup"}', RegKeys='<-RegKeysExt',
           LookKeys='<-LookKeysExt', MaxLive=4, MaxDepth=5)
WATCH = cfgd(NS=3, InitSBases='<-SB_Three', Names='<-NamesE',
             Muts='{"reg","sub","specbases"}',
             Queries='{"lookup","lookupAll","subs"}',
             RegKeys='<-RegKeysWatch', SubKeys='<-SubKeysWatch',
             LookKeys='<-LookKeysWatch', SBaseChoices='<-SBaseChoicesWatch',
             MaxLive=2, MaxDepth=6)
DIAMOND = cfgd(NS=1, NG=5, InitSBases='<-SB_One', InitRBases='<-RB_Diamond5',
               Names='<-NamesE', Muts='{"reg","unreg","regbases"}',
               Queries='{"lookup"}', RegKeys='<-RegKeysDiamond',
               LookKeys='<-LookKeysChain', MaxLive=2, MaxDepth=4,
               RBaseChoices='<-RBaseChoicesDiamond')
SUBCACHE = cfgd(NS=1, NG=2, InitSBases='<-SB_One', InitRBases='<-RB_Two',
                Names='<-NamesE', Muts='{"sub","unsub"}', Queries='{"subs"}',
                SubKeys='<-SubKeysSubCache', LookKeys='<-LookKeysSubCache',
                ValMode='"any"', EqClass='<-Eq12', MaxLive=3, MaxDepth=5)

EPCACHE = cfgd(NS=1, NG=2, InitSBases='<-SB_One', InitRBases='<-RB_Two',
               Names='<-NamesE', Muts='{"reg","unreg"}', Queries='{"lookup"}',
               RegKeys='<-RegKeysChain', LookKeys='<-LookKeysChain',
               Vals='{1,2}', ValMode='"any"', MaxLive=2, MaxDepth=6,
               ViaAll='TRUE')

EMPTYSPEC = cfgd(NS=2, InitSBases='<-SB_Empty', Muts='{"reg","unreg"}',
                 Queries='{"lookup","lookupAll"}', RegKeys='<-RegKeysEmpty',
                 LookKeys='<-LookKeysEmpty', MaxLive=2, MaxDepth=5)

OVERLAP = cfgd(NS=1, NG=3, InitSBases='<-SB_One', InitRBases='<-RB_Overlap3',
               Names='<-NamesE', Muts='{"reg","unreg","regbases"}',
               Queries='{"lookup"}', RegKeys='<-RegKeysChain',
               LookKeys='<-LookKeysChain', MaxLive=2, MaxDepth=5,
               RBaseChoices='<-RBaseChoicesOverlap')
SUBSIB = cfgd(NS=1, InitSBases='<-SB_One', Names='<-NamesE',
              Muts='{"sub","unsub"}', Queries='{"subs"}',
              SubKeys='<-SubKeysSib', LookKeys='<-LookKeysSib', MaxLive=3,
              MaxDepth=5)

# an ANCESTOR of the looked-up specification is re-based (the lookup object is
# a dependent of the looked-up specification only; the notification it gets
# names the ancestor as the origin of the change)
ANCESTOR = cfgd(NS=3, InitSBases='<-SB_Chain3', Names='<-NamesE',
                Muts='{"reg","sub","specbases"}',
                Queries='{"lookup","lookupAll","subs"}',
                RegKeys='<-RegKeysAnc', SubKeys='<-SubKeysAnc',
                LookKeys='<-LookKeysAnc', SBaseChoices='<-SBaseChoicesAnc',
                MaxLive=2, MaxDepth=5)
# class declarations only: re-basing one onto / off another changes no
# interface resolution order, but the looked-up order (__sro__) does change
DECLS = cfgd(NS=2, InitSBases='<-SB_Chain2', Names='<-NamesE',
             Muts='{"reg","sub","specbases"}',
             Queries='{"lookup","lookupAll","subs"}',
             RegKeys='<-RegKeysDecl', SubKeys='<-SubKeysDecl',
             LookKeys='<-LookKeysDecl', SBaseChoices='<-SBaseChoicesCache',
             MaxLive=2, MaxDepth=5)
# the TOP of a three-registry chain gets (and loses) a base of its own
TOPBASE = cfgd(NS=1, NG=4, InitSBases='<-SB_One',
               InitRBases='<-RB_Chain3Extra', Names='<-NamesE',
               Muts='{"reg","sub","regbases"}', Queries='{"lookup","subs"}',
               RegKeys='<-RegKeysChain', SubKeys='<-SubKeysChain',
               LookKeys='<-LookKeysChain', RBaseChoices='<-RBaseChoicesTop',
               MaxLive=2, MaxDepth=5)
TOPBASE_OPT = dict(sb='SB_One', rb='RB_Chain3Extra')

# Components layer (MC_RegistryComp): two / three component registries, re-run
# constructors (fresh registries under a live component) and re-assigned
# __bases__ (also the same tuple): NG counts registry IDENTITIES
COMP = cfgd(NS=1, NG=4, InitSBases='<-SB_One', Names='<-NamesE',
            Muts='{"reg","unreg","sub"}', Queries='{"lookup","subs"}',
            RegKeys='<-RegKeysChain', SubKeys='<-SubKeysChain',
            LookKeys='<-LookKeysChain', MaxLive=2, MaxDepth=5,
            NC=2, InitCBases='<-CB_Chain2', CBaseChoices='<-CBaseChoices2')
COMP3 = dict(COMP, NG=5, NC=3, InitCBases='<-CB_Chain3',
             CBaseChoices='<-CBaseChoices3')
COMP_OPT = dict(module='MC_RegistryComp', init='InitC', next_='NextC',
                view='ViewC', emit='EmitC', dumpobs='DumpObsC',
                invs=['LinkedUnlessStale'], props=['AssignRelinks'],
                components=True, only_components=True)

INVS = ['TypeOK', 'ExtOK', 'InvWalkIsBest', 'InvEntryPointsAgree',
        'InvSubsExact', 'CacheTransparent', 'RoIsFresh']

# property -> tier -> list of (name, kind, constants, replay options)
#   kind: 'states' (Dump per state), 'edges' (transition dump, BFS paths),
#         'sim' (random behaviours)
PLAN = {
    'C04': {
        'quick': [
            ('order<=2', 'states', ORDER, dict(sb='SB_Diamond', rb='RB_One',
                                               absent=True, noise=True)),
            ('order-sim', 'sim', dict(ORDER, MaxLive=5),
             dict(sb='SB_Diamond', rb='RB_One', num=200, depth=15)),
            ('extendors d5', 'edges', EXT,
             dict(sb='SB_One', rb='RB_One', pb='PB_Tree4')),
            # "most specific" includes "nearest registry first": chains
            # whose members are re-based, rebuilt and changed
            ('chain3 sim push', 'sim',
             dict(CHAIN, InitRBases='<-RB_Chain3', MaxLive=3, MaxDepth=100),
             dict(sb='SB_One', rb='RB_Chain3', num=200, depth=14)),
            ('chain3 sim verify', 'sim',
             dict(CHAIN, InitRBases='<-RB_Chain3', MaxLive=3, MaxDepth=100,
                  Flavour='"verify"'),
             dict(sb='SB_One', rb='RB_Chain3', num=200, depth=14)),
            ('top of a chain re-based d5 verify', 'edges',
             dict(TOPBASE, Flavour='"verify"'), TOPBASE_OPT),
        ],
        'thorough': [
            ('extendors d7', 'edges', dict(EXT, MaxDepth=7),
             dict(sb='SB_One', rb='RB_One', pb='PB_Tree4')),
            ('order<=3', 'states', dict(ORDER, MaxLive=3),
             dict(sb='SB_Diamond', rb='RB_One', absent=True, noise=True)),
            ('order-sim', 'sim', dict(ORDER, MaxLive=6),
             dict(sb='SB_Diamond', rb='RB_One', num=5000, depth=20)),
        ]},
    'C07': {
        'quick': [
            ('subs<=2', 'states', dict(SUBS, MaxLive=2),
             dict(sb='SB_Diamond', rb='RB_Two')),
            ('subs-sim', 'sim', dict(SUBS, MaxLive=5),
             dict(sb='SB_Diamond', rb='RB_Two', num=200, depth=15)),
            ('subcache d5', 'edges', SUBCACHE,
             dict(sb='SB_One', rb='RB_Two', eq12=True)),
            ('sibling provided d5', 'edges', SUBSIB,
             dict(sb='SB_One', rb='RB_One')),
            # three registries: the order BETWEEN inherited registries
            ('chain3 d5 push', 'edges',
             dict(CHAIN, InitRBases='<-RB_Chain3', MaxDepth=5,
                  Muts='{"sub","unsub","regbases"}', Queries='{"subs"}',
                  Vals='{1,2}', ValMode='"any"', MaxLive=3),
             dict(sb='SB_One', rb='RB_Chain3')),
            ('top of a chain re-based d5 push', 'edges',
             dict(TOPBASE, Muts='{"sub","regbases"}', Queries='{"subs"}'),
             TOPBASE_OPT),
            ('top of a chain re-based d5 verify', 'edges',
             dict(TOPBASE, Muts='{"sub","regbases"}', Queries='{"subs"}',
                  Flavour='"verify"'), TOPBASE_OPT),
            ('chain3 sim verify', 'sim',
             dict(CHAIN, InitRBases='<-RB_Chain3', MaxLive=3, MaxDepth=100,
                  Flavour='"verify"'),
             dict(sb='SB_One', rb='RB_Chain3', num=200, depth=14)),
            # rebuild() between subscriptions and unsubscriptions (it leaves
            # the abstract state unchanged: only random behaviours pass it)
            ('subscriptions with rebuild sim', 'sim',
             dict(BOOKS, Muts='{"sub","unsub","rebuild"}',
                  SubKeys='<-SubKeysRebuild', LookKeys='<-LookKeysRebuild',
                  Queries='{"subs"}', MaxLive=4, MaxDepth=100),
             dict(sb='SB_Chain2', rb='RB_One', eq12=True, num=300,
                  depth=16)),
        ],
        'thorough': [
            ('subscriptions with rebuild sim', 'sim',
             dict(BOOKS, Muts='{"sub","unsub","rebuild"}',
                  SubKeys='<-SubKeysRebuild', LookKeys='<-LookKeysRebuild',
                  Queries='{"subs"}', MaxLive=5, MaxDepth=100),
             dict(sb='SB_Chain2', rb='RB_One', eq12=True, num=4000,
                  depth=25)),
            ('subs<=3', 'states', dict(SUBS, MaxLive=3),
             dict(sb='SB_Diamond', rb='RB_Two')),
            ('subs-sim', 'sim', dict(SUBS, MaxLive=6),
             dict(sb='SB_Diamond', rb='RB_Two', num=5000, depth=20)),
            ('subcache d7', 'edges', dict(SUBCACHE, MaxDepth=7, MaxLive=4),
             dict(sb='SB_One', rb='RB_Two', eq12=True)),
            ('subcache verify d6', 'edges',
             dict(SUBCACHE, MaxDepth=6, Flavour='"verify"'),
             dict(sb='SB_One', rb='RB_Two', eq12=True)),
        ]},
    'C09': {
        'quick': [
            ('books d5', 'edges', BOOKS, dict(sb='SB_Chain2', rb='RB_One',
                                              copy=True, eq12=True)),
            ('order<=2 copy', 'states', ORDER,
             dict(sb='SB_Diamond', rb='RB_One', copy=True, noise=True,
                  absent=True, sample=600)),
            # histories that come back to a state they have been in (a key
            # emptied and used again): never a shortest prefix
            ('books-sim', 'sim', dict(BOOKS, MaxLive=4, MaxDepth=100),
             dict(sb='SB_Chain2', rb='RB_One', copy=True, eq12=True,
                  num=250, depth=20)),
        ],
        'thorough': [
            ('books d7', 'edges', dict(BOOKS, MaxDepth=7),
             dict(sb='SB_Chain2', rb='RB_One', copy=True, eq12=True)),
            ('books-sim', 'sim', dict(BOOKS, MaxLive=5, MaxDepth=100),
             dict(sb='SB_Chain2', rb='RB_One', copy=True, eq12=True,
                  num=3000, depth=25)),
            ('subs<=2 copy', 'states', dict(SUBS, MaxLive=2),
             dict(sb='SB_Diamond', rb='RB_Two', copy=True)),
        ]},
    'C05': {
        'quick': [
            ('cache d4 push', 'edges', dict(CACHE, MaxDepth=4),
             dict(sb='SB_Chain2', rb='RB_Two')),
            ('cache d4 verify', 'edges', dict(CACHE, MaxDepth=4,
                                              Flavour='"verify"'),
             dict(sb='SB_Chain2', rb='RB_Two')),
            ('watch d6 push', 'edges', WATCH,
             dict(sb='SB_Three', rb='RB_One')),
            ('empty declaration d5 push', 'edges', EMPTYSPEC,
             dict(sb='SB_Empty', rb='RB_One', empty_spec=2)),
            ('ancestor re-based d5 push', 'edges', ANCESTOR,
             dict(sb='SB_Chain3', rb='RB_One')),
            ('ancestor re-based d5 verify', 'edges',
             dict(ANCESTOR, Flavour='"verify"'),
             dict(sb='SB_Chain3', rb='RB_One')),
            ('class declarations only d5 push', 'edges', DECLS,
             dict(sb='SB_Chain2', rb='RB_One', all_impl=True)),
            ('entry points x cache d6 verify', 'edges',
             dict(EPCACHE, Flavour='"verify"'),
             dict(sb='SB_One', rb='RB_Two')),
            # re-basing of a registry ABOVE the one that is asked, followed by
            # a mutation of the asked registry itself (three registries)
            ('chain d5 verify', 'edges', dict(CHAIN, Flavour='"verify"'),
             dict(sb='SB_One', rb='RB_None3')),
            ('cache-sim', 'sim', dict(CACHE, MaxLive=4, MaxDepth=100),
             dict(sb='SB_Chain2', rb='RB_Two', num=150, depth=30)),
            ('cache-sim verify', 'sim', dict(CACHE, MaxLive=4, MaxDepth=100,
                                             Flavour='"verify"'),
             dict(sb='SB_Chain2', rb='RB_Two', num=150, depth=30)),
        ],
        'thorough': [
            # (depth 6 here is 40+ GB of transitions to replay: measured)
            ('cache d5 push', 'edges', dict(CACHE, MaxDepth=5),
             dict(sb='SB_Chain2', rb='RB_Two')),
            ('cache d5 verify', 'edges', dict(CACHE, MaxDepth=5,
                                              Flavour='"verify"'),
             dict(sb='SB_Chain2', rb='RB_Two')),
            ('watch d7 push', 'edges', dict(WATCH, MaxDepth=7),
             dict(sb='SB_Three', rb='RB_One')),
            ('empty declaration d6 push', 'edges',
             dict(EMPTYSPEC, MaxDepth=6),
             dict(sb='SB_Empty', rb='RB_One', empty_spec=2)),
            ('empty declaration d6 verify', 'edges',
             dict(EMPTYSPEC, MaxDepth=6, Flavour='"verify"'),
             dict(sb='SB_Empty', rb='RB_One', empty_spec=2)),
            ('watch d7 verify', 'edges', dict(WATCH, MaxDepth=7,
                                              Flavour='"verify"'),
             dict(sb='SB_Three', rb='RB_One')),
            ('ancestor re-based d7 push', 'edges',
             dict(ANCESTOR, MaxDepth=7), dict(sb='SB_Chain3', rb='RB_One')),
            ('ancestor re-based d7 verify', 'edges',
             dict(ANCESTOR, MaxDepth=7, Flavour='"verify"'),
             dict(sb='SB_Chain3', rb='RB_One')),
            ('cache-sim', 'sim', dict(CACHE, MaxLive=4, MaxDepth=100),
             dict(sb='SB_Chain2', rb='RB_Two', num=5000, depth=40)),
            ('cache-sim verify', 'sim', dict(CACHE, MaxLive=4, MaxDepth=100,
                                             Flavour='"verify"'),
             dict(sb='SB_Chain2', rb='RB_Two', num=5000, depth=40)),
        ]},
    'C06': {
        'quick': [
            ('chain d5 push', 'edges', CHAIN, dict(sb='SB_One',
                                                   rb='RB_None3',
                                                   components=True)),
            ('chain d5 verify', 'edges', dict(CHAIN, Flavour='"verify"'),
             dict(sb='SB_One', rb='RB_None3')),
            ('chain3 d5 push', 'edges',
             dict(CHAIN, InitRBases='<-RB_Chain3', MaxDepth=5),
             dict(sb='SB_One', rb='RB_Chain3', components=True)),
            ('chain3 d5 verify', 'edges',
             dict(CHAIN, InitRBases='<-RB_Chain3', MaxDepth=5,
                  Flavour='"verify"'),
             dict(sb='SB_One', rb='RB_Chain3')),
            ('diamond5 d4 push', 'edges', DIAMOND,
             dict(sb='SB_One', rb='RB_Diamond5', components=True)),
            ('overlapping bases d5 push', 'edges', OVERLAP,
             dict(sb='SB_One', rb='RB_Overlap3', components=True)),
            ('overlapping bases sim push', 'sim',
             dict(OVERLAP, MaxDepth=100),
             dict(sb='SB_One', rb='RB_Overlap3', num=200, depth=12)),
            # histories (transition coverage uses shortest prefixes, and an
            # operation that leaves the abstract state unchanged, such as
            # rebuild(), is never on one)
            ('chain3 sim push', 'sim',
             dict(CHAIN, InitRBases='<-RB_Chain3', MaxLive=3, MaxDepth=100),
             dict(sb='SB_One', rb='RB_Chain3', num=300, depth=14)),
            ('chain3 sim verify', 'sim',
             dict(CHAIN, InitRBases='<-RB_Chain3', MaxLive=3, MaxDepth=100,
                  Flavour='"verify"'),
             dict(sb='SB_One', rb='RB_Chain3', num=300, depth=14)),
            ('top of a chain re-based d5 push', 'edges', TOPBASE,
             TOPBASE_OPT),
            ('top of a chain re-based d5 verify', 'edges',
             dict(TOPBASE, Flavour='"verify"'), TOPBASE_OPT),
            # Components: constructors re-run on live objects, __bases__
            # re-assigned (the same tuple included)
            ('components reinit d5', 'edges', COMP,
             dict(COMP_OPT, sb='SB_One', rb='RB_None4', cb=[[], [1]])),
            ('components3 reinit sim', 'sim', dict(COMP3, MaxLive=3,
                                                   MaxDepth=100),
             dict(COMP_OPT, sb='SB_One', rb='RB_None5', cb=[[], [1], [2]], num=200, depth=14)),
        ],
        'thorough': [
            ('components reinit d7', 'edges', dict(COMP, MaxDepth=7),
             dict(COMP_OPT, sb='SB_One', rb='RB_None4', cb=[[], [1]])),
            ('components3 reinit d6', 'edges', dict(COMP3, MaxDepth=6),
             dict(COMP_OPT, sb='SB_One', rb='RB_None5', cb=[[], [1], [2]])),
            ('components3 reinit sim', 'sim', dict(COMP3, MaxLive=4,
                                                   MaxDepth=100),
             dict(COMP_OPT, sb='SB_One', rb='RB_None5', cb=[[], [1], [2]], num=4000, depth=25)),
            ('chain d6 push', 'edges',
             dict(CHAIN, MaxDepth=6, RBaseChoices='<-RBaseChoices3'),
             dict(sb='SB_One', rb='RB_None3', components=True)),
            ('chain d6 verify', 'edges',
             dict(CHAIN, MaxDepth=6, RBaseChoices='<-RBaseChoices3',
                  Flavour='"verify"'),
             dict(sb='SB_One', rb='RB_None3')),
            ('chain3 d6 push', 'edges',
             dict(CHAIN, InitRBases='<-RB_Chain3', MaxDepth=6),
             dict(sb='SB_One', rb='RB_Chain3')),
            ('chain3 d6 verify', 'edges',
             dict(CHAIN, InitRBases='<-RB_Chain3', MaxDepth=6,
                  Flavour='"verify"'),
             dict(sb='SB_One', rb='RB_Chain3')),
            ('diamond5 d6 push', 'edges', dict(DIAMOND, MaxDepth=6),
             dict(sb='SB_One', rb='RB_Diamond5')),
            ('diamond5 d5 verify', 'edges',
             dict(DIAMOND, MaxDepth=5, Flavour='"verify"'),
             dict(sb='SB_One', rb='RB_Diamond5')),
            ('diamond5 from scratch d7 push', 'edges',
             dict(DIAMOND, MaxDepth=7, InitRBases='<-RB_None5', MaxLive=1),
             dict(sb='SB_One', rb='RB_None5')),
            ('chain4 sim push', 'sim',
             dict(CHAIN, NG=4, InitRBases='<-RB_None4',
                  RBaseChoices='<-RBaseChoices4', MaxLive=4, MaxDepth=100),
             dict(sb='SB_One', rb='RB_None4', num=4000, depth=25)),
            ('chain4 sim verify', 'sim',
             dict(CHAIN, NG=4, InitRBases='<-RB_None4', Flavour='"verify"',
                  RBaseChoices='<-RBaseChoices4', MaxLive=4, MaxDepth=100),
             dict(sb='SB_One', rb='RB_None4', num=4000, depth=25)),
        ]},
}
PLAN['C08'] = {
    'quick': [PLAN['C05']['quick'][0], PLAN['C05']['quick'][1],
              ('entry points x cache d6 push', 'edges', EPCACHE,
               dict(sb='SB_One', rb='RB_Two')),
              ('entry points x cache d6 verify', 'edges',
               dict(EPCACHE, Flavour='"verify"'),
               dict(sb='SB_One', rb='RB_Two')),
              ('order<=2', 'states', ORDER,
               dict(sb='SB_Diamond', rb='RB_One', sample=1500))],
    'thorough': PLAN['C05']['thorough'][:3] + [
        ('entry points x cache d8 push', 'edges', dict(EPCACHE, MaxDepth=8),
         dict(sb='SB_One', rb='RB_Two')),
        ('entry points x cache d8 verify', 'edges',
         dict(EPCACHE, MaxDepth=8, Flavour='"verify"'),
         dict(sb='SB_One', rb='RB_Two')),
        ('order<=3', 'states', dict(ORDER, MaxLive=3),
         dict(sb='SB_Diamond', rb='RB_One'))],
}

KEYS_ORDER_ABSENT = None


def flavour_of(consts):
    return consts['Flavour'].strip('"')


def run_replay(build, v, pid, consts, opt, mode, cases, budget):
    if not cases:
        return 0
    rnd = random.Random(seed())
    n_all = len(cases)
    if n_all > budget:
        cases = rnd.sample(cases, budget)
    jobs = []
    for implv in ('c', 'py'):
        if opt.get('only_components'):
            break
        for li, leaf_impl in enumerate((False, True)):
            for si, sh in enumerate(shard(cases, max(1, NCPU // 4))):
                job = {'flavour': flavour_of(consts), 'sbases': SB[opt['sb']],
                       'pbases': PB[opt.get('pb', 'PB_Fork')],
                       'rbases': RB[opt['rb']],
                       'leaf_impl': leaf_impl, 'mode': mode, 'cases': sh,
                       # the class-declaration runs also use the documented
                       # persistence hooks (custom container types)
                       'custom_containers': leaf_impl,
                       'seed': seed() * 1000 + si}
                if opt.get('eq12'):
                    job['eqclass'] = {'1': 1, '2': 1, '3': 2}
                if opt.get('empty_spec'):
                    job['empty_spec'] = opt['empty_spec']
                    job['leaf_impl'] = False
                if opt.get('all_impl'):
                    job['all_impl'] = True
                jobs.append((implv, job))
    for implv in ('c', 'py'):
        if opt.get('components') and flavour_of(consts) == 'push':
            for si, sh in enumerate(shard(cases, max(1, NCPU // 4))):
                jobs.append((implv, {
                    'flavour': 'push', 'sbases': SB[opt['sb']],
                    'pbases': PB[opt.get('pb', 'PB_Fork')],
                    'rbases': RB[opt['rb']], 'leaf_impl': False,
                    'mode': mode, 'cases': sh, 'components': True,
                    'seed': seed() * 1000 + 500 + si}))
                if opt.get('cb'):
                    jobs[-1][1]['cbases'] = opt['cb']
                if opt.get('only_components'):
                    # the same behaviours on the .utilities side
                    jobs.append((implv, dict(jobs[-1][1],
                                             comp_attr='utilities')))
    for (implv, job), r in zip(jobs, run_children(build,
                                                  'replay_registry.py',
                                                  jobs)):
        if 'crash' in r:
            v.violation('%s replay crashed with signal %s (%s)' % (
                pid, r['crash'], implv), r)
            continue
        v.cov['evaluations'] += r['evaluations']
        for m in r['mismatches']:
            sig = '%s %s %s %s expected=%s got=%s ctx=%s' % (
                pid, m['impl'], job['flavour'], m['what'],
                json.dumps(m['expected']), json.dumps(m['got']),
                json.dumps(m['ctx'], sort_keys=True)[:1500])
            v.violation(sig, m, one_case('replay_registry.py', implv, job,
                                         m))
    v.cov['traces_validated_against_impl'] += len(jobs) // max(
        1, len(shard(cases, max(1, NCPU // 4)))) * len(cases)
    return len(cases)


def main(pid, tier):
    v = Verdict(pid, tier)
    v.cov['rule'] = (
        'cases = states (registry contents, each rebuilt in a seeded random '
        'order with register/lookup/unregister noise) and transitions / '
        'random behaviours of MC_Registry replayed into real registries '
        '(2 implementations x plain-interface / class-declaration leaf '
        'spec); every query answer compared with the admissible set TLC '
        'computed from primary state only; non-trivial = a state with at '
        'least two live entries or a behaviour of at least three steps')
    v.assumptions = [
        'bounded universes (tlc_runs constants); required specification '
        'orders are assumed correct here (C02/C03 establish them)',
        'answers among incomparable provided interfaces / incomparable '
        'subscription keys are deliberately not pinned (admissible sets)']
    with Build() as build:
        exhaustive = run(pid, tier, v, build)
        # code -> spec: traces recorded from the real code (random drivers
        # over larger universes, the repository's own doctests) validated
        # by TraceRegistry.tla
        import trace_registry
        trace_registry.validate(build, v, pid, tier)
    v.cov['exhaustive'] = exhaustive
    return v.finish()


def run(pid, tier, v, build, plan=None):
    """model-check + replay the configurations of PLAN[pid][tier] (or the
    given plan); returns whether everything enumerated was also replayed"""
    budget = 3000 if tier == 'quick' else 10 ** 9
    exhaustive = True
    if True:
        for (name, kind, consts, opt) in (plan or PLAN[pid])[tier]:
            flav = flavour_of(consts)
            module = opt.get('module', 'MC_Registry')
            invs = INVS + opt.get('invs', [])
            mk = dict(init=opt.get('init', 'Init'),
                      next_=opt.get('next_', 'Next'),
                      properties=opt.get('props', ()))
            view = opt.get('view', 'View')
            emit = opt.get('emit', 'Emit')
            dumpobs = opt.get('dumpobs', 'DumpObs')
            if kind == 'states':
                cfg = make_cfg(build.dir, 'reg', consts, view='View',
                               constraint='Bound',
                               invariants=INVS + ['DumpState'])
                res = run_tlc('MC_Registry', cfg, scratch=build.dir,
                              timeout=3000)
            elif kind == 'edges':
                cfg = make_cfg(build.dir, 'reg', consts, view=view,
                               constraint='Bound', action_constraint=emit,
                               invariants=invs + [dumpobs], **mk)
                res = run_tlc(module, cfg, scratch=build.dir,
                              timeout=3000,
                              workers=1 if tier == 'quick' else None)
                join_obs(res)
            else:
                cfg = make_cfg(build.dir, 'reg', consts, view=view,
                               constraint='Bound', action_constraint=emit,
                               invariants=invs + [dumpobs], **mk)
                res = run_tlc(module, cfg, scratch=build.dir,
                              simulate=opt['num'], depth=opt['depth'],
                              seed_=seed(), timeout=3000)
                join_obs(res, every=4)
            label = '%s [%s]' % (name, flav)
            v.add_tlc(res, label)
            if res.violated:
                raise MachineryError(
                    'model-level violation of %s in %s (the specification '
                    'of the mechanism does not satisfy the property):\n%s'
                    % (res.violated, label, '\n'.join(res.trace[:60])))
            if kind == 'states':
                if len(res.lines) != res.distinct:
                    raise MachineryError('dump incomplete: %d lines, %d '
                                         'states' % (len(res.lines),
                                                     res.distinct))
                cases = []
                for st in res.lines:
                    c = {'regs': st['regs'], 'sreg': st['sreg'],
                         'obs': st['obs'], 'copy': opt.get('copy', False)}
                    if opt.get('noise'):
                        c['noise'] = [[[2], 1, ''], [[1, 1], 2, 'n'],
                                      [[], 3, ''], [[3], 2, '']]
                    if opt.get('absent'):
                        c['absent'] = [[[2], 1, ''], [[1], 1, 'n'],
                                       [[], 1, ''], [[1, 2], 2, '']]
                    cases.append(c)
                    nl = sum(len(x) for x in st['regs']) + \
                        sum(len(e['vals']) for x in st['sreg'] for e in x)
                    if nl >= 2:
                        v.cov['distinct_nontrivial'] += 1
                done = run_replay(build, v, pid, consts, opt, 'states', cases,
                                  opt.get('sample', budget))
                if done < len(cases):
                    exhaustive = False
                v.sample({'config': label, 'state': {
                    'regs': cases[-1]['regs'], 'sreg': cases[-1]['sreg']}})
            elif kind == 'edges':
                root, tree, edges = graph_paths(res.lines)
                cases = []
                for e in edges:
                    path = tree[e['_fk']] + [e]
                    if e['obs'] is None:
                        continue
                    steps = [{'act': x['act']} for x in path[:-1]]
                    steps.append({'act': e['act'], 'obs': e['obs']})
                    cases.append({'steps': steps,
                                  'copy': opt.get('copy', False)})
                    if pid == 'C08' and e['act']['op'] == 'lookup':
                        # the entry point that asks first after the history
                        # is part of the case: one case per entry point
                        vias = ['lookup', 'lookup_list', 'lookup_lazy',
                                'multi']
                        if len(e['act']['req']) == 1:
                            vias += ['lookup1', 'hook', 'queryAdapter']
                        for via in vias:
                            cases.append({'steps': steps[:-1] + [
                                {'act': dict(e['act'], via=via),
                                 'obs': e['obs']}], 'copy': False})
                    if len(path) >= 3:
                        v.cov['distinct_nontrivial'] += 1
                # dense variant: probe everything after every step
                done = run_replay(build, v, pid, consts, opt, 'paths', cases,
                                  budget * 4)
                if done < len(cases):
                    exhaustive = False
                v.sample({'config': label, 'behaviour': [
                    {k: w for k, w in s['act'].items() if k != 'adm'}
                    for s in cases[-1]['steps']]})
            else:
                cases = []
                for beh in split_behaviours(res.lines):
                    steps = []
                    for i, x in enumerate(beh):
                        st = {'act': x['act']}
                        if (i % 4 == 3 or i == len(beh) - 1) and x['obs']:
                            st['obs'] = x['obs']
                        steps.append(st)
                    cases.append({'steps': steps,
                                  'copy': opt.get('copy', False)})
                    v.cov['distinct_nontrivial'] += 1
                run_replay(build, v, pid, consts, opt, 'paths', cases,
                           10 ** 9)
                exhaustive = False if tier == 'quick' else exhaustive
                if cases:
                    v.sample({'config': label, 'behaviour': [
                        {k: w for k, w in s['act'].items() if k != 'adm'}
                        for s in cases[0]['steps']]})
    return exhaustive


C10_PLAN = {
    'quick': [q for q in PLAN['C05']['quick'] if q[1] == 'sim'] + [
              q for q in PLAN['C06']['quick'] if q[0] == 'chain3 sim verify'
              ] + [
              ('books-sim', 'sim', dict(BOOKS, MaxLive=5, MaxDepth=100),
               dict(sb='SB_Chain2', rb='RB_One', eq12=True, num=150,
                    depth=25))],
    'thorough': [q for q in PLAN['C05']['thorough'] if q[1] == 'sim'] + [
        q for q in PLAN['C06']['thorough'] if q[1] == 'sim'] + [
        ('books-sim', 'sim', dict(BOOKS, MaxLive=5, MaxDepth=100),
         dict(sb='SB_Chain2', rb='RB_One', eq12=True, num=3000, depth=25))],
}


if __name__ == '__main__':
    try:
        sys.exit(main(sys.argv[1], sys.argv[2]))
    except MachineryError as e:
        print('MACHINERY FAILURE: %s' % e)
        sys.exit(2)
