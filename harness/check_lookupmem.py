"""C11: LookupMem.tla checked by TLC (single-frame schedules with
re-entrant foreign code; lookup threads x mutator interleavings); every
single-thread schedule injected into the real lookup code with an ownership
audit; real-thread stress with TLC validation of the recorded call log."""
import json
import os
import sys

from common import (Build, MachineryError, Verdict, make_cfg, run_children,
                    run_tlc, seed, shard, tla_bool, NCPU, SPEC)

INVS = ['TypeOK', 'NoUseAfterFree', 'RefcountBalanced', 'NoStaleSurvives',
        'AnswerLinearizable']


def consts(impl, threads, mutator, entries, verifying, plans, maxcalls=1,
           maxframes=3, maxver=4, maxcells=8, order='snapshot_first',
           stale=False):
    return {'VerifyOrder': '"%s"' % order, 'StartStale': tla_bool(stale),
            'Impl': '"%s"' % impl, 'Threads': threads,
            'Mutator': tla_bool(mutator), 'MaxVer': maxver,
            'MaxCells': maxcells, 'Entries': '<-' + entries,
            'Verifying': tla_bool(verifying), 'Plans': '<-' + plans,
            'MaxCalls': maxcalls, 'MaxFrames': maxframes}


def tlc(build, v, name, c, dump=False, expect_fail=False, workers=None):
    cfg = make_cfg(build.dir, 'lm', c, constraint='CellBound',
                   invariants=INVS + (['Dump'] if dump else []))
    res = run_tlc('MC_LookupMem', cfg, scratch=build.dir, timeout=3000,
                  workers=workers)
    v.add_tlc(res, name)
    if expect_fail:
        want = 'NoUseAfterFree' if expect_fail is True else expect_fail
        if res.violated != want:
            raise MachineryError(
                'self-test: the model of the pinned code must violate %s in '
                '%s, TLC said %r' % (want, name, res.violated))
    elif res.violated:
        raise MachineryError('model-level violation of %s in %s:\n%s' % (
            res.violated, name, '\n'.join(res.trace[:60])))
    return res


def walk_interior(build, v, tier):
    """LookupWalk.tla: the interior of the uncached walk interrupted by
    one complete mutation at any container access; TLC checks the mechanism
    (copy-on-write extendor lists) against 'before or after', refutes the
    in-place variant, and every initial state becomes a case that is
    injected into the real walk at every access in turn."""
    c = {'ExtInPlace': 'FALSE', 'Kinds': '<-BothKinds'}
    cfg = make_cfg(build.dir, 'lw', c,
                   invariants=['TypeOK', 'BeforeOrAfter', 'DumpCase'])
    res = run_tlc('MC_LookupWalk', cfg, scratch=build.dir, timeout=1200)
    v.add_tlc(res, 'walk interior: one mutation at any container access')
    if res.violated:
        raise MachineryError('model-level violation of %s in LookupWalk:\n%s'
                             % (res.violated, '\n'.join(res.trace[:40])))
    cfg = make_cfg(build.dir, 'lwx', dict(c, ExtInPlace='TRUE'),
                   invariants=['BeforeOrAfter'])
    bad = run_tlc('MC_LookupWalk', cfg, scratch=build.dir, timeout=1200)
    v.add_tlc(bad, 'self-test: extendor lists shrunk in place')
    if bad.violated != 'BeforeOrAfter':
        raise MachineryError('self-test: with ExtInPlace=TRUE TLC must refute '
                             'BeforeOrAfter, got %r' % (bad.violated,))
    cases = res.lines
    if tier == 'quick' and len(cases) > 1500:
        import random
        cases = random.Random(seed()).sample(cases, 1500)
    jobs = []
    for implv in ('c', 'py'):
        for flav in ('push', 'verify'):
            for sh in shard(cases, max(1, NCPU // 4)):
                jobs.append((implv, {'flavour': flav, 'cases': sh}))
    for (implv, job), r in zip(jobs, run_children(
            build, 'replay_lookupwalk.py', jobs)):
        if 'crash' in r:
            v.violation('C11 walk-interior replay crashed with signal %s '
                        '(%s)' % (r['crash'], implv), r)
            continue
        v.cov['evaluations'] += r['evaluations']
        v.notes['walk_interior_ownership_audits'] = v.notes.get(
            'walk_interior_ownership_audits', 0) + r.get('audits', 0)
        for m in r['mismatches']:
            v.violation('C11 %s %s %s expected=%s got=%s ctx=%s' % (
                m['impl'], job['flavour'], m['what'],
                json.dumps(m['expected']), json.dumps(m['got']),
                json.dumps(m['ctx'], sort_keys=True)), m)
    v.cov['traces_validated_against_impl'] += 4 * len(cases)
    v.notes['walk_interior_cases'] = len(cases)


def main(pid, tier):
    v = Verdict(pid, tier)
    v.cov['rule'] = (
        'cases = terminal states of MC_LookupMem single-thread runs: one per '
        '(entry point, verifying?, plan of foreign actions at call-outs); '
        'each is injected into the real lookup code (C and Python) with an '
        'ownership audit at the call-out; non-trivial = the plan mutates, '
        'raises or re-enters at a call-out where the frame holds a cache. '
        'Thread interleavings are exhausted on the model; real threads are '
        'run for a fixed time and their call log validated by TLC '
        '(TraceLookupMem)')
    v.assumptions = [
        'GIL: other Python code runs during a C lookup only at call-outs '
        'into Python (not claimed for free-threaded builds)',
        'ownership is audited through sys.getrefcount on the container the '
        'frame works on; containers that cannot be located are counted as '
        'unaudited, never as violations',
        'the mutating thread itself may see RuntimeError/KeyError from '
        'unsynchronised bookkeeping in Python (AdapterLookupBase.changed vs '
        '_subscribe); C11 speaks about lookups, this is recorded as a '
        'limitation in DESIGN.md, not checked']
    plans = 'SinglePlans' if tier == 'quick' else 'PairPlans'
    with Build() as build:
        cases = []
        for verifying, stale in ((False, False), (True, False), (True, True)):
            for impl in ('c_owned', 'py'):
                res = tlc(build, v, 'schedules %s verifying=%s%s %s' % (
                    impl, verifying, ' start-stale' if stale else '', plans),
                    consts(impl, '{1}', False, 'AllEntries', verifying,
                           plans, stale=stale), dump=(impl == 'c_owned'))
                if impl == 'c_owned':
                    for r in res.lines:
                        d = r['done']
                        d = d['1'] if isinstance(d, dict) else d[0]
                        rec = d[0]
                        case = {'entry': rec['entry'],
                                'verifying': verifying, 'plan': rec['plan'],
                                'start_stale': stale,
                                'expect': {'exc': rec['exc'],
                                           'ans': rec['ans'],
                                           'inv': rec['inv'],
                                           'ret': rec['ret'],
                                           'ver': r['ver']},
                                'leak': True}
                        cases.append(case)
                        if rec['entry'] == 'all':
                            c2 = dict(case)
                            c2['entry'] = 'subs'
                            cases.append(c2)
            if stale:
                continue
            tlc(build, v, 'self-test c_pinned verifying=%s' % verifying,
                consts('c_pinned', '{1}', False, 'AllEntries', verifying,
                       'SinglePlans'), expect_fail=True)
        # changed() of a verifying lookup as sequenced at the pin (caches
        # dropped before the generations are read): what is cached during
        # that read survives under generations that are already newer
        for impl in ('c_owned', 'py'):
            tlc(build, v, 'self-test clear_first %s' % impl,
                consts(impl, '{1}', False, 'AllEntries', True, 'SinglePlans',
                       order='clear_first', stale=True),
                expect_fail='NoStaleSurvives')
        # interleavings of lookup threads with a mutator thread
        for verifying in (False, True):
            for impl in ('c_owned', 'py'):
                tlc(build, v, 'threads %s verifying=%s' % (impl, verifying),
                    consts(impl, '{1, 2}', True, 'LookupOnly', verifying,
                           'OnlyNone', maxcalls=2, maxframes=4, maxver=3))
            tlc(build, v, 'self-test threads c_pinned verifying=%s' %
                verifying,
                consts('c_pinned', '{1, 2}', True, 'LookupOnly', verifying,
                       'OnlyNone', maxcalls=2, maxframes=4, maxver=3),
                expect_fail=True)
        if tier == 'thorough':
            for impl in ('c_owned', 'py'):
                tlc(build, v, '3 threads %s' % impl,
                    consts(impl, '{1, 2, 3}', True, 'LookupOnly', False,
                           'OnlyNone', maxcalls=1, maxframes=3, maxver=3))
        # de-duplicate (plans that differ only at call-outs an entry lacks)
        seen = set()
        uniq = []
        for c in cases:
            k = json.dumps([c['entry'], c['verifying'], c['plan'],
                            c['start_stale'], c['expect']], sort_keys=True)
            if k not in seen:
                seen.add(k)
                uniq.append(c)
        cases = uniq
        nontriv = sum(1 for c in cases if any(
            a != 'none' for k, a in c['plan'].items()
            if k in ('B', 'C1', 'C3', 'D', 'E')))
        v.cov['distinct_nontrivial'] = nontriv
        jobs = []
        for implv in ('c', 'py'):
            for sh in shard(cases, NCPU // 2):
                jobs.append((implv, {'mode': 'schedules', 'cases': sh,
                                     'leaks': True}))
        aud = unaud = 0
        for (implv, job), r in zip(jobs, run_children(
                build, 'replay_lookupmem.py', jobs)):
            if 'crash' in r:
                v.violation('C11 schedule replay crashed with signal %s '
                            '(%s)' % (r['crash'], implv), r)
                continue
            v.cov['evaluations'] += r['evaluations']
            aud += r['audited']
            unaud += r['unaudited']
            for m in r['mismatches']:
                v.violation('C11 %s %s expected=%s got=%s ctx=%s' % (
                    m['impl'], m['what'], json.dumps(m['expected']),
                    json.dumps(m['got']), json.dumps(m['ctx'],
                                                     sort_keys=True)), m)
        v.cov['traces_validated_against_impl'] += 2 * len(cases)
        v.notes['ownership_audits'] = aud
        v.notes['unaudited_probes'] = unaud
        v.sample({'schedule': cases[len(cases) // 2]})
        walk_interior(build, v, tier)
        # real threads
        secs = 4 if tier == 'quick' else 45
        tjobs = []
        for implv in ('c', 'py'):
            for verifying in (False, True):
                tjobs.append((implv, {'mode': 'threads', 'spec': {
                    'verifying': verifying, 'seconds': secs, 'lookers': 3}}))
        # threads that only look up must never see an exception
        tjobs.append(('c', {'mode': 'threads', 'spec': {
            'verifying': False, 'seconds': secs, 'lookers': 4,
            'mutator': False}}))
        logs = []
        for (implv, job), r in zip(tjobs, run_children(
                build, 'replay_lookupmem.py', tjobs, timeout=secs * 6 + 120)):
            sp = job['spec']
            label = 'threads %s verifying=%s mutator=%s' % (
                implv, sp['verifying'], sp.get('mutator', True))
            if 'crash' in r:
                v.violation('C11 %s: interpreter died with signal %s while '
                            'lookup threads raced a mutator' % (
                                label, r['crash']), r)
                continue
            v.cov['evaluations'] += r['calls']
            v.notes.setdefault('thread_runs', []).append({
                'run': label, 'calls': r['calls'],
                'mutations': r['mutations'], 'lookup_errors': r['nerrors'],
                'mutator_error': r['mutator_error']})
            if r['nerrors']:
                v.violation('C11 %s: lookup raised %s' % (
                    label, r['errors'][0]), r['errors'])
            logs.append((label, r['log']))
        for label, log in logs:
            if not log:
                continue
            path = os.path.join(build.dir, 'calls.ndjson')
            with open(path, 'w') as f:
                for rec in log:
                    f.write(json.dumps(list(rec)) + '\n')
            res = run_tlc('TraceLookupMem', 'TraceLookupMem',
                          scratch=build.dir, workers=1,
                          env={'TRACE_FILE': path}, timeout=600)
            v.add_tlc(res, 'trace validation: ' + label)
            if res.violated:
                v.violation('C11 %s: recorded call log rejected by '
                            'TraceLookupMem (%s): a lookup answered with a '
                            'data version outside [last completed before '
                            'invocation, last begun before return]' % (
                                label, res.violated),
                            {'trace': res.trace[:30]})
            elif res.distinct != len(log) + 1:
                raise MachineryError('trace validation consumed %d of %d '
                                     'records' % (res.distinct - 1, len(log)))
            else:
                v.cov['traces_validated_against_impl'] += 1
    v.cov['exhaustive'] = True
    return v.finish()


if __name__ == '__main__':
    try:
        sys.exit(main(sys.argv[1], sys.argv[2]))
    except MachineryError as e:
        print('MACHINERY FAILURE: %s' % e)
        sys.exit(2)
