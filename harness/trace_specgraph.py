"""Code -> spec conformance for the specification graph: record traces from
the real code (harness/record_specgraph.py: random programs with re-entrant
re-basing) and validate them with spec/TraceSpecGraph.tla."""
import json
import os
import re

from common import MachineryError, run_children, run_tlc, seed

PLAN = {'quick': dict(traces=60, events=60, nodes=8),
        'thorough': dict(traces=1500, events=90, nodes=10)}


def validate(build, v, pid, tier):
    plan = PLAN[tier]
    jobs = []
    for k, implv in enumerate(('c', 'py')):
        jobs.append((implv, {'traces': plan['traces'],
                             'events': plan['events'],
                             'nodes': plan['nodes'],
                             'seed': seed() * 104729 + k}))
    results = run_children(build, 'record_specgraph.py', jobs)
    for (implv, job), r in zip(jobs, results):
        label = 'recorded specification-graph traces (random, %s)' % implv
        if 'crash' in r:
            v.violation('%s %s: recorder crashed with signal %s' % (
                pid, label, r['crash']), r)
            continue
        traces = [t for t in r['traces'] if t['ev']]
        path = os.path.join(build.dir, 'sgtrace_%s.ndjson' % implv)
        with open(path, 'w') as f:
            for t in traces:
                f.write(json.dumps(t) + '\n')
        res = run_tlc('TraceSpecGraph', 'TraceSpecGraph', scratch=build.dir,
                      workers=1, env={'TRACE_FILE': path}, timeout=3000,
                      jvm='-Xss64m')
        v.add_tlc(res, 'trace validation: ' + label)
        nev = sum(len(t['ev']) for t in traces)
        nested = sum(1 for t in traces for e in t['ev']
                     if e.get('depth', 0) > 0)
        queries = sum(1 for t in traces for e in t['ev']
                      if e['op'] == 'query')
        v.notes.setdefault('recorded_traces', []).append({
            'source': label, 'traces': len(traces), 'events': nev,
            'nested_assignments': nested, 'queries_judged': queries})
        if nested < len(traces) // 4 or queries < nev // 3:
            raise MachineryError(
                'specification-graph driver degenerate: %d nested '
                'assignments, %d queries in %d events' % (nested, queries,
                                                          nev))
        if res.violated:
            m = re.search(r'mismatch = (<< ?"trace".*?>>)\s*(/\\|$)',
                          res.raw_tail, re.S)
            detail = m.group(1) if m else res.raw_tail[-1200:]
            bad = None
            m2 = re.search(r'"trace", (\d+), "event", (\d+)', detail) or \
                re.search(r'"trace", (\d+), "event", (\d+)', res.raw_tail)
            if m2 and not m:
                i = res.raw_tail.find('"trace", %s, "event"' % m2.group(1))
                detail = res.raw_tail[max(0, i - 4):i + 700]
            if m2:
                t = traces[int(m2.group(1)) - 1]
                bad = {'trace': t['ev'][:int(m2.group(2))]}
            v.violation('%s %s rejected by TraceSpecGraph: %s' % (
                pid, label, ' '.join(detail.split())[:900]),
                bad or {'trace_tail': res.trace[-40:]})
        elif res.distinct != nev + len(traces):
            raise MachineryError(
                'trace validation consumed %d states for %d events in %d '
                'traces (%s)' % (res.distinct, nev, len(traces), label))
        else:
            v.cov['traces_validated_against_impl'] += len(traces)
            v.cov['evaluations'] += queries
            v.sample({'recorded specification-graph trace (first events)': [
                {k: e[k] for k in e if k in ('op', 'n', 'bases', 'depth',
                                            'kind', 'sro')}
                for e in traces[0]['ev'][:10]]})
