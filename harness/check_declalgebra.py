"""C20: DeclAlgebra.tla checked by TLC (laws as invariants on every case),
every case replayed into real Declaration / Implements / Provides objects
and through alsoProvides / noLongerProvides / directlyProvidedBy, under both
implementations."""
import json
import os
import random
import sys
import tempfile

from common import (one_case, Build, MachineryError, Verdict, make_cfg, run_children,
                    run_tlc, seed, shard, NCPU)

SINGLE_INV = ['IterLawC', 'InLawC', 'FlatLawC', 'NormalizeLawC', 'LinExtLaw']
PAIR_INV = ['SubLawC', 'AddLawC', 'AddAdmLawC', 'UsersLawC']

QUICK_ATOMS = '{0, 1, 2, 4, 5, 8}'
ALL_ATOMS = '{0, 1, 2, 3, 4, 5, 7, 8}'

# (dag, MaxLen, MaxLenNR)
PLAN = {
    'quick': {
        'specs': [('DagE', 4, 5)],
        'shapes': [('DagE', QUICK_ATOMS)],
        # (dag, MaxLen, MaxLenNR, slices, of, LawCheckMax)
        'pairs': [('DagE', 3, 3, 1, 1, 6),       # every pair, short lists
                  ('DagE', 4, 5, 1, 32, 5)],     # 1/32 of the long lists
        'file': 0,
    },
    'thorough': {
        'specs': [('DagE', 4, 5), ('DagD', 3, 4), ('DagC', 3, 4)],
        'shapes': [('DagE', ALL_ATOMS), ('DagD', QUICK_ATOMS)],
        'pairs': [('DagE', 4, 5, 8, 8, 5),       # every pair, 8 slices
                  ('DagD', 3, 3, 1, 1, 6),
                  ('DagC', 3, 3, 1, 1, 6)],
        'file': 20000,
    },
}


def constants(family, dag, maxlen=2, maxlennr=2, atoms='{0}', mod=1,
              sseed=0, lawmax=6, old_add=False, exact_sub=False):
    return {'NI': 5, 'IBases': '<-' + dag, 'Family': '"%s"' % family,
            'OldAdd': 'TRUE' if old_add else 'FALSE',
            'ExactSub': 'TRUE' if exact_sub else 'FALSE',
            'MaxLen': maxlen, 'MaxLenNR': maxlennr, 'LeafAtoms': atoms,
            'SampleMod': mod, 'SampleSeed': sseed, 'LawCheckMax': lawmax}


def tlc(build, v, name, consts, invs, dump, env=None, expect_fail=False):
    cfg = make_cfg(build.dir, 'da_' + consts['Family'].strip('"'), consts,
                   invariants=invs + ([dump] if dump else []),
                   next_='MCNext')
    res = run_tlc('MC_DeclAlgebra', cfg, scratch=build.dir, env=env)
    if expect_fail:
        return res
    v.add_tlc(res, name)
    if res.violated:
        raise MachineryError(
            'model-level violation of %s in %s (the specification of the '
            'mechanism does not satisfy the property):\n%s'
            % (res.violated, name, '\n'.join(res.trace[:40])))
    if len(res.lines) != res.distinct:
        raise MachineryError('dump incomplete in %s: %d lines for %d states'
                             % (name, len(res.lines), res.distinct))
    world = None
    cases = []
    for r in res.lines:
        if 'grp' in r:
            world = world or {k: r[k] for k in ('ni', 'ibases', 'shape_d',
                                                'shape_h')}
        else:
            cases.append(r)
    if world is None:
        raise MachineryError('no world record in ' + name)
    return world, cases


def replay(build, v, mode, world, cases, extra=None):
    if not cases:
        return
    jobs = []
    for impl in ('c', 'py'):
        for sh in shard(cases, max(1, NCPU // 2)):
            job = {'mode': mode, 'world': world, 'cases': sh,
                   'seed': seed()}
            job.update(extra or {})
            jobs.append((impl, job))
    for (impl, job), r in zip(jobs, run_children(
            build, 'replay_declalgebra.py', jobs)):
        if 'crash' in r:
            v.violation('C20 replay crashed with signal %s (%s)' % (
                r['crash'], impl), r)
            continue
        v.cov['evaluations'] += r['evaluations']
        for k, n in r['counts'].items():
            cnt = v.notes.setdefault('replay_counts', {})
            cnt[k] = cnt.get(k, 0) + n
        for m in r['mismatches']:
            sig = 'C20 %s %s expected=%s got=%s ctx=%s' % (
                m['impl'], m['what'], json.dumps(m['expected']),
                json.dumps(m['got']), json.dumps(m['ctx'], sort_keys=True))
            v.violation(sig, m, one_case('replay_declalgebra.py', impl, job,
                                         m))
    v.cov['traces_validated_against_impl'] += 2 * len(cases)


def single_nontrivial(c):
    def nested(items):
        return any(it['k'] != 0 for it in items)

    def leaves(items):
        n = 0
        for it in items:
            n += 1 if it['k'] == 0 else leaves(it['s'])
        return n
    cc = c['c']
    return (cc['op'] != 0 or nested(cc['items'])
            or leaves(cc['items']) != len(c['iter']))


def pair_nontrivial(c):
    la = len(c['a'])
    return c['sub'] != c['a'] or any(r[:la] != c['a'] for r in c['add'])


# ------------------------------------------------------------------
# random nested argument structures (code -> spec direction): produced here,
# evaluated by TLC (Family "file"), then replayed like any other case.
def random_items(rnd, depth, atoms):
    out = []
    for _ in range(rnd.choice((0, 1, 1, 2, 2, 3, 4))):
        x = rnd.random()
        if depth == 0 or x < 0.55:
            out.append({'k': 0, 'i': rnd.choice(atoms), 's': []})
        elif x < 0.8:
            out.append({'k': 1, 'i': -1,
                        's': random_items(rnd, depth - 1, atoms)})
        else:
            out.append({'k': 2, 'i': -1,
                        's': random_items(rnd, depth - 1, atoms)})
    return out


def self_test(build, v):
    """Corrupt the mechanism in the model and make sure TLC rejects it."""
    out = {}
    for name, kw, inv in (('OldAdd', {'old_add': True}, 'AddLawC'),
                          ('ExactSub', {'exact_sub': True}, 'SubLawC')):
        res = tlc(build, v, name, constants('pairs', 'DagE', 2, 2, **kw),
                  [inv], None, expect_fail=True)
        out[name] = res.violated
        if res.violated != inv:
            raise MachineryError(
                'self-test: the model with %s=TRUE should violate %s, got %s'
                % (name, inv, res.violated))
    v.notes['self_test'] = out


def main(pid, tier):
    v = Verdict(pid, tier)
    plan = PLAN[tier]
    v.cov['rule'] = (
        'cases = states of MC_DeclAlgebra: single operands (nested/'
        'duplicated argument structures; every duplicate-free list as '
        'Declaration, in two noisy shapes, as class specification and as '
        'Provides for every elision-free split) and pairs of lists; each '
        'replayed under C and Python; a single case is non-trivial if it is '
        'not a flat duplicate-free Declaration; a pair is non-trivial if '
        'A-B differs from A or some admissible A+B does not start with A')
    v.assumptions = [
        'bounded universe: 5 interfaces + root, three inheritance DAGs, '
        'list lengths and nesting depth as in tlc_runs',
        'class specifications / Provides objects are operands only where '
        'the declaration elides nothing (elision is C01); the users are '
        'replayed only where the root is not among the operands',
        'the relative order of the NEW interfaces inside the front and the '
        'end group of A+B is not stated by C20 and not checked',
        'TLC, CommunityModules Json/IOUtils, harness/replay_declalgebra.py '
        'world builder trusted']
    exhaustive = True
    rnd = random.Random(seed())
    with Build() as build:
        self_test(build, v)
        shapes = {}
        for (dag, ml, mlnr) in plan['specs']:
            name = 'specs %s MaxLen=%d MaxLenNR=%d' % (dag, ml, mlnr)
            world, cases = tlc(build, v, name,
                               constants('specs', dag, ml, mlnr),
                               SINGLE_INV, 'DumpSingle')
            sh = {}
            for c in cases:
                cc = c['c']
                if cc['op'] == 0 and any(it['k'] != 0 for it in cc['items']):
                    sh.setdefault(json.dumps(c['iter']), []).append(
                        cc['items'])
            lists = {json.dumps(c['iter']) for c in cases}
            for key in lists:
                if len(sh.get(key, ())) != 2:
                    raise MachineryError('noisy shapes missing for %s in %s'
                                         % (key, name))
            shapes[dag] = sh
            v.cov['distinct_nontrivial'] += sum(map(single_nontrivial, cases))
            replay(build, v, 'single', world, cases)
            v.sample({'config': name, 'case': cases[len(cases) // 2]})
        for (dag, atoms) in plan['shapes']:
            name = 'shapes %s atoms=%s' % (dag, atoms)
            world, cases = tlc(build, v, name,
                               constants('shapes', dag, atoms=atoms),
                               SINGLE_INV, 'DumpSingle')
            v.cov['distinct_nontrivial'] += sum(map(single_nontrivial, cases))
            replay(build, v, 'single', world, cases)
            v.sample({'config': name, 'case': cases[len(cases) // 3]})
        if plan['file']:
            path = os.path.join(build.dir, 'random_shapes.ndjson')
            with open(path, 'w') as f:
                for n in range(plan['file']):
                    f.write(json.dumps({
                        'id': n, 'items': random_items(
                            rnd, 3, [0, 1, 2, 3, 4, 5, 7, 8])}) + '\n')
            name = 'file: %d random argument structures, depth <= 3' % \
                plan['file']
            world, cases = tlc(build, v, name, constants('file', 'DagE'),
                               SINGLE_INV, 'DumpSingle',
                               env={'CASES_FILE': path})
            if len({c['c']['id'] for c in cases}) != plan['file']:
                raise MachineryError('file family: %d of %d cases evaluated'
                                     % (len(cases), plan['file']))
            v.cov['distinct_nontrivial'] += sum(map(single_nontrivial, cases))
            replay(build, v, 'single', world, cases)
            v.sample({'config': name, 'case': cases[0]})
        for (dag, ml, mlnr, slices, of, lawmax) in plan['pairs']:
            first = seed() % of if slices < of else 0
            exhaustive_here = slices >= of
            exhaustive = exhaustive and exhaustive_here
            for s in range(first, first + slices):
                name = 'pairs %s MaxLen=%d MaxLenNR=%d slice %d/%d' % (
                    dag, ml, mlnr, s % of, of)
                world, cases = tlc(
                    build, v, name,
                    constants('pairs', dag, ml, mlnr, mod=of,
                              sseed=s % of, lawmax=lawmax),
                    PAIR_INV, 'DumpPair')
                v.cov['distinct_nontrivial'] += sum(map(pair_nontrivial,
                                                        cases))
                replay(build, v, 'pairs', world, cases,
                       {'shapes': shapes[dag],
                        'all_kinds': tier == 'thorough'})
                if cases:
                    v.sample({'config': name,
                              'case': cases[rnd.randrange(len(cases))]})
                del cases
            if not exhaustive_here:
                v.notes.setdefault('sampled', []).append(
                    '%s MaxLen=%d MaxLenNR=%d: %d of %d slices' % (
                        dag, ml, mlnr, slices, of))
        # the pair universes of the plan that are marked "every pair" are
        # enumerated and replayed completely; sampled ones are listed
    v.cov['exhaustive'] = exhaustive
    v.notes['exhaustive_scope'] = (
        'every case of every TLC run listed in tlc_runs is replayed; '
        'sampled pair universes (if any) are listed under "sampled"')
    return v.finish()


if __name__ == '__main__':
    try:
        sys.exit(main(sys.argv[1], sys.argv[2]))
    except MachineryError as e:
        print('MACHINERY FAILURE: %s' % e)
        sys.exit(2)
