#!/bin/bash
# try_mutant.sh <patch.diff> <Cnn> [tier]: apply a seeded change to /repo, run the check, undo the change.
P=$1; ID=$2; T=${3:-quick}
R=${VERIF_REPO:-/repo}; cd $R || exit 9
if ! git apply --check "$P" 2>/dev/null; then echo "PATCH DOES NOT APPLY: $P"; exit 9; fi
git apply "$P"
trap 'git -C $R checkout -- . ' EXIT
cd /verif && ./check $ID --tier $T > /tmp/try_$ID.out 2>&1
rc=$?
grep -E "VIOLATION|MACHINERY|KNOWN" /tmp/try_$ID.out | head -4
echo "rc=$rc"
