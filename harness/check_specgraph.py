"""C02 / C03 / C15: SpecGraph.tla checked by TLC, every state / transition
replayed into real specification objects under both implementations."""
import json
import random
import sys

from common import (one_case, Build, MachineryError, Verdict, graph_paths, join_obs,
                    make_cfg, run_children, run_tlc, seed, shard,
                    split_behaviours, tla_bool, NCPU)

INV = {
    'C10': ['TypeOK', 'ImpliedIsReach', 'SroValid', 'SroIsC3', 'MemoSound',
            'AccessorsAgree', 'FreshEquiv'],
    'C02': ['TypeOK', 'ImpliedIsReach', 'SroSetIsReach', 'DepsExact',
            'FreshEquiv'],
    'C03': ['TypeOK', 'SroValid', 'SroIsC3', 'StrictIff', 'FreshEquiv'],
    'C15': ['TypeOK', 'MemoSound', 'AccessorsAgree', 'FreshEquiv'],
}

# (N, MaxB, IsIface, DefChoices, RootExplicit)
DAG = {
    ('C02', 'quick'): [(4, 2, 'Mixed4', 'NoDef', False),
                       (4, 2, 'Mixed4', 'NoDef', True)],
    ('C02', 'thorough'): [(4, 3, 'Mixed4', 'NoDef', False),
                          (4, 3, 'Mixed4', 'NoDef', True),
                          (5, 2, 'Mixed5', 'NoDef', False),
                          (5, 2, 'Mixed5', 'NoDef', True)],
    ('C03', 'quick'): [(4, 3, 'AllIface4', 'NoDef', True),
                       (4, 3, 'AllIface4', 'NoDef', False),
                       (4, 2, 'Mixed4', 'NoDef', True),
                       # base-less declarations below three bases: the legacy
                       # fallback with a specification that has no path to
                       # the root
                       (4, 3, 'Mixed4', 'NoDef', False),
                       # interfaces with explicit Interface base + base-less
                       # class-specification-like declarations: SroValid only
                       (4, 3, 'Mixed4', 'NoDef', True, 'rootless')],
    ('C03', 'thorough'): [(4, 3, 'AllIface4', 'NoDef', True),
                          (4, 3, 'AllIface4', 'NoDef', False),
                          (5, 3, 'AllIface5', 'NoDef', False),
                          (5, 2, 'AllIface5', 'NoDef', True),
                          (5, 2, 'Mixed5', 'NoDef', True),
                          (4, 3, 'Mixed4', 'NoDef', True, 'rootless'),
                          (5, 3, 'Mixed5', 'NoDef', True, 'rootless')],
    ('C15', 'quick'): [(4, 2, 'AllIface4', 'AnyDef', False),
                       (3, 2, 'AllIface3', 'AnyDef', True)],
    ('C15', 'thorough'): [(4, 3, 'AllIface4', 'AnyDef', False),
                          (4, 2, 'AllIface4', 'AnyDef', True),
                          (5, 2, 'AllIface5', 'Def12', False)],
}
# (N, MaxB, IsIface, DefChoices, RootExplicit, depth, WithGet)
HIST = {
    ('C02', 'quick'): [(4, 2, 'Mixed4', 'NoDef', False, 5, False),
                       (4, 1, 'Decl4', 'NoDef', False, 6, False),
                       (3, 2, 'Mixed3', 'NoDef', True, 5, False),
                       # equal-named twin interfaces (1 and 2)
                       (4, 1, 'AllIface4', 'NoDef', False, 5, False, 'twins')],
    ('C02', 'thorough'): [(4, 2, 'Mixed4', 'NoDef', False, 7, False),
                          (4, 2, 'Mixed4', 'NoDef', True, 6, False),
                          (4, 2, 'Decl4', 'NoDef', False, 6, False),
                          (5, 1, 'Decl5', 'NoDef', False, 7, False),
                          (4, 2, 'AllIface4', 'NoDef', False, 6, False),
                          (4, 2, 'AllIface4', 'NoDef', False, 5, False,
                           'twins'),
                          (5, 1, 'AllIface5', 'NoDef', False, 6, False,
                           'twins')],
    ('C03', 'quick'): [(4, 2, 'AllIface4', 'NoDef', False, 4, False),
                       (3, 3, 'AllIface3', 'NoDef', True, 5, False),
                       # equal-named twins: re-basing from one onto the other
                       # assigns an EQUAL tuple of different objects
                       (4, 1, 'AllIface4', 'NoDef', False, 5, False, 'twins')],
    ('C03', 'thorough'): [(4, 3, 'AllIface4', 'NoDef', False, 6, False),
                          (4, 2, 'AllIface4', 'NoDef', True, 6, False),
                          (4, 2, 'Mixed4', 'NoDef', False, 6, False)],
    ('C15', 'quick'): [(3, 2, 'AllIface3', 'Def12', False, 6, True),
                       (4, 2, 'AllIface4', 'Def12', False, 4, True),
                       (4, 1, 'AllIface4', 'DefBoth', False, 6, True,
                        'twins')],
    ('C15', 'thorough'): [(3, 2, 'AllIface3', 'AnyDef', False, 8, True),
                          (4, 2, 'AllIface4', 'Def12', False, 6, True),
                          (3, 2, 'AllIface3', 'Def12', True, 7, True),
                          (4, 1, 'AllIface4', 'DefBoth', False, 7, True,
                           'twins'),
                          (4, 2, 'AllIface4', 'DefBoth', False, 5, True,
                           'twins')],
}
SIM = {  # (N, MaxB, IsIface, Def, RootExplicit, depth, WithGet, num)
    'quick': (5, 2, 'Mixed5', 'Def12', False, 15, True, 400),
    'thorough': (6, 3, 'Mixed6', 'Def12', False, 30, True, 3000),
}

ISIFACE = {'AllIface7': [True] * 7, 'Decl4': [False] * 4, 'Decl5': [True] + [False] * 4,
           'AllIface3': [True] * 3, 'AllIface4': [True] * 4,
           'AllIface5': [True] * 5, 'Mixed3': [True, True, False],
           'Mixed4': [True, True, False, False],
           'Mixed5': [True, True, True, False, False],
           'Mixed6': [True, True, True, False, False, False]}


def nontrivial(case_obs):
    iso = case_obs['isoe']
    vals = iso.values() if isinstance(iso, dict) else iso
    return any(len(v) >= 3 for v in vals)


def twins_shared(case, pair, N):
    """did the two twins ever list the same direct base (not Interface)?"""
    bases = {n: [] for n in range(0, N + 1)}
    for st in case['steps']:
        a = st['act']
        if a['op'] == 'SetBases':
            bases[a['n']] = list(a['nb'])
            if set(bases[pair[0]]) & set(bases[pair[1]]) - {0}:
                return True
    return False


def replay(build, v, pid, mode, N, isiface, rootx, cases, budget,
           rootless=False, twins=(), known=None):
    if not cases:
        return
    rnd = random.Random(seed())
    if len(cases) > budget:
        cases = rnd.sample(cases, budget)
        v.notes['sampled'] = True
    jobs = []
    for impl in ('c', 'py'):
        for sh in shard(cases, NCPU // 2):
            jobs.append((impl, {'mode': mode, 'prop': pid, 'N': N,
                                'isiface': ISIFACE[isiface],
                                'root_explicit': rootx, 'cases': sh,
                                'valid_only': rootless,
                                'twins': list(twins)}))
    for (impl, job), r in zip(jobs, run_children(build,
                                                 'replay_specgraph.py',
                                                 jobs)):
        if 'crash' in r:
            v.violation('%s replay crashed with signal %s (%s)' % (
                pid, r['crash'], impl), r)
            continue
        if r['guard_failures']:
            raise MachineryError('spec C3 disagrees with CPython type.mro(): '
                                 + json.dumps(r['guard_failures'][:3]))
        v.cov['evaluations'] += r['evaluations']
        for m in r['mismatches']:
            sig = '%s %s %s expected=%s got=%s ctx=%s' % (
                pid, m['impl'], m['what'], json.dumps(m['expected']),
                json.dumps(m['got']), json.dumps(m['ctx'], sort_keys=True))
            if known:
                sig = '[%s] %s' % (known, sig)
            v.violation(sig, m, one_case('replay_specgraph.py', impl, job,
                                         m))
    v.cov['traces_validated_against_impl'] += 2 * len(cases)
    return cases


def run_sim(pid, tier, v, build):
    """random long behaviours over a larger universe (transition coverage
    from shortest prefixes does not compose histories; these do), with and
    without equal-named twin interfaces"""
    (N, maxb, isif, defc, rootx, depth, wg, num) = SIM[tier]
    plans = [(N, maxb, isif, defc, rootx, depth, wg, num, [])]
    if pid == 'C03':
        # wide merges (three bases, seven interfaces): where a merge that
        # does not restart its scan after every pick goes wrong
        plans.append((7, 3, 'AllIface7', 'NoDef', False, 16, False, num, []))
    if pid in ('C02', 'C15'):
        plans.append((4, 1, 'AllIface4', 'DefBoth', False, 14, True,
                      num, [[1, 2]]))
        plans.append((5, 2, 'AllIface5', 'DefBoth', False, 16, True,
                      num // 2, [[1, 2]]))
    for k, (N, maxb, isif, defc, rootx, depth, wg, num, twins) in \
            enumerate(plans):
        cfg = make_cfg(build.dir, 'sim', {
            'Twins': '<-Twins12' if twins else '<-NoTwins',
            'N': N, 'MaxB': maxb, 'MaxDepth': depth + 1,
            'IsIface': '<-' + isif, 'DefChoices': '<-' + defc,
            'WithGet': tla_bool(wg), 'RootExplicit': tla_bool(rootx),
            'PinnedC03': 'FALSE', 'PinnedC15': 'FALSE'},
            invariants=INV[pid] + ['DumpObs'], view='View',
            action_constraint='Emit')
        res = run_tlc('MC_SpecGraph_hist', cfg, simulate=num, depth=depth,
                      seed_=seed() + k, scratch=build.dir)
        join_obs(res)
        name = 'simulate N=%d depth=%d num=%d%s' % (
            N, depth, num, ' twins(1,2)' if twins else '')
        v.add_tlc(res, name)
        if res.violated:
            raise MachineryError('model-level violation of %s in %s:\n%s' % (
                res.violated, name, '\n'.join(res.trace[:40])))
        cases = []
        for beh in split_behaviours(res.lines):
            steps = [{'act': x['act'], 'obs': x['obs'],
                      'bases': x['to']['bases']} for x in beh]
            cases.append({'defA': beh[0]['from']['defA'], 'steps': steps})
        if twins:
            # behaviours are cut where the twins first share a base: the
            # prefix is an ordinary case, the whole is attributed to the
            # known finding (DESIGN.md 5.9)
            shared, clean = [], []
            for c in cases:
                cut = first_shared(c, twins[0], N)
                if cut is None:
                    clean.append(c)
                else:
                    shared.append(c)
                    if cut > 0:
                        clean.append({'defA': c['defA'],
                                      'steps': c['steps'][:cut]})
            replay(build, v, pid, 'hist', N, isif, rootx, shared, 10 ** 9,
                   twins=twins, known='twins-shared-a-base')
            cases = clean
        replay(build, v, pid, 'hist', N, isif, rootx, cases, 10 ** 9,
               twins=twins)
        if cases:
            v.sample({'config': name,
                      'behaviour': [s['act'] for s in cases[0]['steps']]})


def first_shared(case, pair, N):
    """index of the first step after which the twins list a common direct
    base (None: never)"""
    bases = {n: [] for n in range(0, N + 1)}
    for i, st in enumerate(case['steps']):
        a = st['act']
        if a['op'] == 'SetBases':
            bases[a['n']] = list(a['nb'])
            if set(bases[pair[0]]) & set(bases[pair[1]]) - {0}:
                return i
    return None


def main(pid, tier):
    v = Verdict(pid, tier)
    v.cov['rule'] = ('cases = states of MC_SpecGraph_dag (every ordered-base '
                     'DAG, built fresh two ways) and transitions of '
                     'MC_SpecGraph_hist (rebasing histories) replayed into '
                     'the real objects; non-trivial = some specification '
                     'has >= 2 proper ancestors')
    v.assumptions = [
        'bounded universe (see tlc_runs constants)',
        'hierarchies mixing explicit Interface bases with base-less '
        'specifications are outside the universe (DESIGN C03 notes)',
        'TLC, CommunityModules Json, harness/replay_specgraph.py world '
        'builder trusted']
    budget = 4000 if tier == 'quick' else 400000
    exhaustive = True
    with Build() as build:
        for spec_ in DAG[(pid, tier)]:
            (N, maxb, isif, defc, rootx) = spec_[:5]
            rootless = len(spec_) > 5
            cfg = make_cfg(build.dir, 'dag', {
                'N': N, 'MaxB': maxb, 'IsIface': '<-' + isif,
                'DefChoices': '<-' + defc, 'RootExplicit': tla_bool(rootx),
                'DeclRootless': tla_bool(rootless),
                'PinnedC03': 'FALSE', 'PinnedC15': 'FALSE'},
                invariants=(['TypeOK', 'SroValid', 'SroSetIsReach']
                            if rootless else INV[pid]) + ['Dump'])
            res = run_tlc('MC_SpecGraph_dag', cfg, scratch=build.dir)
            name = 'dag N=%d MaxB=%d %s %s root_explicit=%s%s' % (
                N, maxb, isif, defc, rootx,
                ' rootless-declarations' if rootless else '')
            v.add_tlc(res, name)
            if res.violated:
                raise MachineryError(
                    'model-level violation of %s in %s (the specification '
                    'of the mechanism does not satisfy the property):\n%s'
                    % (res.violated, name, '\n'.join(res.trace[:40])))
            cases = res.lines
            if len(cases) != res.distinct:
                raise MachineryError('dump incomplete: %d lines for %d states'
                                     % (len(cases), res.distinct))
            v.cov['distinct_nontrivial'] += sum(1 for c in cases
                                                if nontrivial(c))
            done = replay(build, v, pid, 'dag', N, isif, rootx, cases, budget,
                          rootless=rootless)
            if len(done) < len(cases):
                exhaustive = False
            v.sample({'config': name, 'case': {k: cases[-1][k] for k in
                                               ('bases', 'sro', 'defA')}})
        for hspec in HIST[(pid, tier)]:
            (N, maxb, isif, defc, rootx, depth, wg) = hspec[:7]
            twins = [[1, 2]] if len(hspec) > 7 else []
            cfg = make_cfg(build.dir, 'hist', {
                'Twins': '<-Twins12' if twins else '<-NoTwins',
                'N': N, 'MaxB': maxb, 'MaxDepth': depth,
                'IsIface': '<-' + isif, 'DefChoices': '<-' + defc,
                'WithGet': tla_bool(wg), 'RootExplicit': tla_bool(rootx),
                'PinnedC03': 'FALSE', 'PinnedC15': 'FALSE'},
                invariants=INV[pid] + ['DumpObs'], view='View',
                constraint='Bound', action_constraint='Emit')
            res = run_tlc('MC_SpecGraph_hist', cfg, scratch=build.dir,
                          workers=1 if tier == 'quick' else None)
            join_obs(res)
            name = 'hist N=%d MaxB=%d %s %s root_explicit=%s depth=%d%s' % (
                N, maxb, isif, defc, rootx, depth,
                ' twins(1,2)' if twins else '')
            v.add_tlc(res, name)
            if res.violated:
                raise MachineryError(
                    'model-level violation of %s in %s:\n%s'
                    % (res.violated, name, '\n'.join(res.trace[:40])))
            by_def = {}
            for r in res.lines:
                by_def.setdefault(json.dumps(r['from']['defA']), []).append(r)
            cases = []
            for recs in by_def.values():
                root, tree, edges = graph_paths(recs)
                for e in edges:
                    if e['obs'] is None:
                        continue
                    path = tree[e['_fk']] + [e]
                    steps = [{'act': x['act'], 'obs': None, 'check': False}
                             for x in path[:-1]]
                    steps.append({'act': e['act'], 'obs': e['obs'],
                                  'bases': e['to']['bases']})
                    cases.append({'defA': e['from']['defA'], 'steps': steps})
                    if nontrivial(e['obs']):
                        v.cov['distinct_nontrivial'] += 1
            if twins:
                # KNOWN FINDING (DESIGN.md 5.9): two equal-named dependents
                # of one specification share a single entry of its weak
                # dependents table.  Behaviours in which the twins ever had a
                # common direct base are replayed separately and their
                # divergences attributed to that finding; all others are
                # ordinary cases.
                shared = [c for c in cases if twins_shared(c, twins[0], N)]
                cases = [c for c in cases if not twins_shared(c, twins[0], N)]
                replay(build, v, pid, 'hist', N, isif, rootx, shared,
                       budget, twins=twins, known='twins-shared-a-base')
            done = replay(build, v, pid, 'hist', N, isif, rootx, cases,
                          budget * 3, twins=twins)
            if len(done) < len(cases):
                exhaustive = False
            v.sample({'config': name,
                      'behaviour': [s['act'] for s in cases[-1]['steps']]})
        run_sim(pid, tier, v, build)
        # code -> spec: random programs over larger graphs, with re-basing
        # from inside change notifications, recorded from the real code and
        # validated by TraceSpecGraph.tla
        import trace_specgraph
        trace_specgraph.validate(build, v, pid, tier)
    v.cov['exhaustive'] = exhaustive
    return v.finish()


if __name__ == '__main__':
    try:
        sys.exit(main(sys.argv[1], sys.argv[2]))
    except MachineryError as e:
        print('MACHINERY FAILURE: %s' % e)
        sys.exit(2)
