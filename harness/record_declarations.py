"""Child: RECORDS traces of the declaration API as the repository's own
doctests use it, for validation by spec/TraceDeclarations.tla.

job = {"files": [...]}
result = {"traces": [{"classes": [...], "objs": [...], "ianc": [...],
                      "untracked": [...], "ev": [...]}], "notes": {...}}
"""
import childlib
impl = childlib.boot()

import contextlib
import doctest
import io
import os

import zope.interface
from zope.interface import Interface
from zope.interface import declarations as D
from zope.interface.interface import InterfaceClass

job = childlib.job()


class Ids:
    def __init__(self, first=1):
        self.by_id = {}
        self.objs = []
        self.next = first

    def has(self, ob):
        e = self.by_id.get(id(ob))
        return e is not None and e[1] is ob

    def get(self, ob):
        e = self.by_id.get(id(ob))
        if e is not None and e[1] is ob:
            return e[0]
        n = self.next
        self.next += 1
        self.by_id[id(ob)] = (n, ob)
        self.objs.append(ob)
        return n


class Recorder:
    def __init__(self):
        self.ifaces = Ids()
        self.ifaces.by_id[id(Interface)] = (0, Interface)
        self.iro0 = {}
        self.anc0 = {}
        self.classes = Ids()
        self.classes.by_id[id(object)] = (0, object)
        self.class_rows = []
        self.untracked = []
        self.objs = Ids()
        self.obj_rows = []
        self.untracked_objs = []
        self.ev = []
        self.depth = 0
        self.reentered = 0      # declarations made from change notifications
        self.inside = 0         # ... in progress

    def iid(self, I):
        if I is Interface:
            return 0
        if self.ifaces.has(I):
            return self.ifaces.get(I)
        n = self.ifaces.get(I)
        self.iro0[n] = tuple(I.__iro__)
        self.anc0[n] = [self.iid(x) for x in I.__iro__]
        return n

    def rebased(self):
        """an interface got new bases: log every known interface's ancestors
        as the real objects now report them (C02/C03 bind those to the
        graph)"""
        rows = []
        for n, I in [(v[0], v[1]) for v in self.ifaces.by_id.values()]:
            if n:
                self.iro0[n] = tuple(I.__iro__)
                rows.append({'i': n, 'anc': [self.iid(x)
                                             for x in I.__iro__]})
        self.ev.append({'op': 'rebase', 'ianc': rows})

    def cid(self, cls):
        if cls is object:
            return 0
        if self.classes.has(cls):
            return self.classes.get(cls)
        n = self.classes.get(cls)
        bases = []
        opaque = False
        for b in getattr(cls, '__bases__', ()):
            if not isinstance(b, type):
                opaque = True
                continue
            bases.append(self.cid(b))
        # declared (or queried) before we saw it: its history is unknown
        d = getattr(cls, '__dict__', {})
        impl = d.get('__implemented__')
        if impl is not None and not (
                type(impl) is D.Implements and not impl.declared and
                impl.inherit is cls):
            opaque = True       # something was declared before we looked
        if '__providedBy__' in d and \
                d['__providedBy__'] is not D.objectSpecificationDescriptor:
            opaque = True
        if not isinstance(cls, type) or cls.__module__ == 'builtins' or \
                cls.__module__.startswith('zope.interface'):
            opaque = True
        self.class_rows.append({'c': n, 'bases': bases})
        if opaque:
            self.untracked.append(n)
        return n

    def oid(self, ob):
        if self.objs.has(ob):
            return self.objs.get(ob)
        n = self.objs.get(ob)
        if isinstance(ob, type):
            # a class AS AN OBJECT (directlyProvides(cls, ...), provider):
            # an object whose class, the metaclass `type`, implements nothing
            self.obj_rows.append({'o': n, 'cls': 0})
            p = ob.__dict__.get('__provides__')
            if p is not None and not (
                    type(p) is D.ClassProvides and
                    len(getattr(p, '_ClassProvides__args', ())) == 2):
                self.untracked_objs.append(n)   # declared before we looked
        else:
            self.obj_rows.append({'o': n, 'cls': self.cid(type(ob))})
        return n

    def args(self, interfaces):
        """-> (iface ids, opaque?)"""
        out = []
        opaque = False
        try:
            flat = list(D._normalizeargs(interfaces))
        except Exception:       # noqa
            return [], True
        for x in flat:
            if type(x) is InterfaceClass or (
                    isinstance(x, InterfaceClass) and
                    type(x).__name__.endswith('<WithCustomMethods>')):
                out.append(self.iid(x))
            else:
                opaque = True       # a specification: stays linked to its
                #                     owner, not modelled
        return out, opaque

    def log(self, **e):
        self.ev.append(e)

    def reserve(self):
        self.ev.append(None)
        return len(self.ev) - 1

    def fill(self, slot, **e):
        # made from inside a change notification: what the declaring code
        # saw as "already implied" may be the state before or after the
        # outer declaration
        e['re'] = self.inside > 0
        self.ev[slot] = e

    def trace(self):
        dynamic = False
        ianc = []
        for n, I in [(v[0], v[1]) for v in self.ifaces.by_id.values()]:
            if n == 0:
                continue
            if tuple(I.__iro__) != self.iro0.get(n):
                dynamic = True      # re-based behind the recorder's back
            ianc.append({'i': n, 'anc': self.anc0[n]})
        # equal twins (same __module__ and __name__, distinct objects) are
        # ONE key in every implied dict; the specification does not judge
        # a target whose declarations may hold two of them
        keys = {}
        ikey = [{'i': n, 'k': keys.setdefault((I.__module__, I.__name__),
                                              len(keys) + 1)}
                for n, I in [(v[0], v[1])
                             for v in self.ifaces.by_id.values()] if n]
        return {'classes': self.class_rows, 'objs': self.obj_rows,
                'reentrant': self.reentered, 'ianc': ianc, 'ikey': ikey, 'untrackedO': self.untracked_objs, 'untracked': self.untracked, 'ev': self.ev,
                'dynamic': dynamic}


REC = [None]


def outermost(fn, orig):
    """log only the outermost call (alsoProvides calls directlyProvides,
    the decorators call classImplements, ...)"""
    def w(*a, **kw):
        R = REC[0]
        if R is None or R.depth:
            return orig(*a, **kw)
        R.depth += 1
        try:
            return fn(R, *a, **kw)
        finally:
            R.depth -= 1
    return w


ORIG = {}


def install():
    for name in ('classImplements', 'classImplementsOnly',
                 'classImplementsFirst', 'directlyProvides', 'alsoProvides',
                 'noLongerProvides', 'providedBy', 'implementedBy',
                 'directlyProvidedBy'):
        ORIG[name] = getattr(D, name)

    def class_decl(name):
        def f(R, cls, *interfaces):
            c = R.cid(cls) if isinstance(cls, type) else None
            # the declaration takes effect BEFORE the change notification
            # goes out (declared is set, then __bases__): a declaration made
            # from inside that notification comes after this one
            slot = R.reserve() if c is not None else None
            before = R.reentered
            try:
                return ORIG[name](cls, *interfaces)
            finally:
                if c is not None:
                    ifs, opaque = R.args(interfaces)
                    if name == 'classImplementsOnly' and \
                            R.reentered != before:
                        # the *only* form is two steps, each with its own
                        # notification: clear, then declare - a declaration
                        # made from inside the first lands between them and
                        # can make what is declared next redundant
                        opaque = True
                    R.fill(slot, op=name, c=c, ifs=ifs, opaque=opaque)
        g = outermost(f, ORIG[name])

        def w(cls, *interfaces):
            return g(cls, *interfaces)
        return w

    def tracked_ob(ob):
        if isinstance(ob, type):
            return type(ob) is type and ob.__module__ != 'builtins' and \
                not ob.__module__.startswith('zope.interface')
        return not isinstance(ob, super) and \
            hasattr(ob, '__dict__') and \
            type(ob).__module__ != 'builtins' and \
            not isinstance(ob, (InterfaceClass, D.Declaration))

    def obj_decl(name):
        def f(R, ob, *interfaces):
            o = R.oid(ob) if tracked_ob(ob) else None
            slot = R.reserve() if o is not None else None
            try:
                return ORIG[name](ob, *interfaces)
            finally:
                if o is not None:
                    ifs, opaque = R.args(interfaces)
                    R.fill(slot, op=name, o=o, ifs=ifs, opaque=opaque)
        g = outermost(f, ORIG[name])

        def w(ob, *interfaces):
            return g(ob, *interfaces)
        return w

    def providedBy(R, ob):
        o = R.oid(ob) if tracked_ob(ob) else None
        r = ORIG['providedBy'](ob)
        if o is not None:
            try:
                res = [R.iid(x) for x in r.flattened()]
            except Exception:       # noqa
                return r
            R.log(op='providedBy', o=o, res=res)
        return r

    def directlyProvidedBy(R, ob):
        o = R.oid(ob) if tracked_ob(ob) else None
        r = ORIG['directlyProvidedBy'](ob)
        if o is not None:
            try:
                res = [R.iid(x) for x in r.flattened()]
            except Exception:       # noqa
                return r
            R.log(op='directlyProvidedBy', o=o, res=res)
        return r

    def implementedBy(R, cls):
        c = R.cid(cls) if isinstance(cls, type) else None
        r = ORIG['implementedBy'](cls)
        if c is not None:
            try:
                res = [R.iid(x) for x in r.flattened()]
            except Exception:       # noqa
                return r
            R.log(op='implementedBy', c=c, res=res)
        return r

    wrappers = {n: class_decl(n) for n in ('classImplements',
                                           'classImplementsOnly',
                                           'classImplementsFirst')}
    wrappers.update({n: obj_decl(n) for n in ('directlyProvides',
                                              'alsoProvides',
                                              'noLongerProvides')})
    pb = outermost(providedBy, ORIG['providedBy'])
    ib = outermost(implementedBy, ORIG['implementedBy'])
    dpb = outermost(directlyProvidedBy, ORIG['directlyProvidedBy'])
    wrappers['directlyProvidedBy'] = lambda ob: dpb(ob)
    wrappers['providedBy'] = lambda ob: pb(ob)
    wrappers['implementedBy'] = lambda cls: ib(cls)
    for n, w in wrappers.items():
        setattr(D, n, w)
        setattr(zope.interface, n, w)

    # I.providedBy(ob) / I.implementedBy(cls)
    from zope.interface.interface import SpecificationBase
    o_pb = SpecificationBase.providedBy
    o_ib = SpecificationBase.implementedBy

    def i_providedBy(self, ob):
        R = REC[0]
        o = None
        if R is not None and not R.depth and type(self) is InterfaceClass \
                and tracked_ob(ob):
            o = R.oid(ob)
        r = o_pb(self, ob)
        if o is not None:
            R.log(op='IprovidedBy', i=R.iid(self), o=o, res=bool(r))
        return r

    def i_implementedBy(self, cls):
        R = REC[0]
        c = None
        if R is not None and not R.depth and type(self) is InterfaceClass \
                and isinstance(cls, type):
            c = R.cid(cls)
        r = o_ib(self, cls)
        if c is not None:
            R.log(op='IimplementedBy', i=R.iid(self), c=c, res=bool(r))
        return r
    InterfaceClass.providedBy = i_providedBy
    InterfaceClass.implementedBy = i_implementedBy


def run(files):
    out = []
    notes = {}
    for path in files:
        R = REC[0] = Recorder()
        try:
            with contextlib.redirect_stdout(io.StringIO()):
                res = doctest.testfile(path, module_relative=False,
                                       optionflags=doctest.ELLIPSIS |
                                       doctest.NORMALIZE_WHITESPACE,
                                       verbose=False, report=False)
            notes[os.path.basename(path)] = {'attempted': res.attempted,
                                             'failed': res.failed}
        finally:
            REC[0] = None
        t = R.trace()
        t['file'] = os.path.basename(path)
        out.append(t)
    return out, notes


def random_traces(seed, ntraces, nevents):
    """seeded random programs over universes larger than TLC generates from
    (up to 8 interfaces, 6 classes, 5 instances), all through the public
    entry points, the decorators included.  Every trace carries its program
    as text (`script`), so that a rejected trace can be re-run by hand."""
    import random
    rng = random.Random(seed)
    zi = zope.interface
    out = []
    for tno in range(ntraces):
        R = REC[0] = Recorder()
        script = []
        try:
            ifaces = []
            classes = []
            objs = []

            def nm(x):
                if x in ifaces:
                    return 'I%d' % ifaces.index(x)
                if x in classes:
                    return 'C%d' % classes.index(x)
                for k, o in enumerate(objs):
                    if o is x:
                        return 'o%d' % k
                return repr(x)

            def call(fn, *args):
                script.append('%s(%s)' % (fn, ', '.join(
                    a if isinstance(a, str) else nm(a) for a in args)))
                return getattr(zi, fn)(*args)

            for k in range(rng.randint(3, 8)):
                nb = min(len(ifaces), rng.choice([0, 0, 1, 1, 2]))
                bases = tuple(rng.sample(ifaces, nb)) or (Interface,)
                script.append('I%d = InterfaceClass("I%d", (%s,))' % (
                    k, k, ', '.join(nm(x) if x is not Interface else
                                    'Interface' for x in bases)))
                ifaces.append(InterfaceClass('I%d_%d' % (tno, k), bases))
                R.iid(ifaces[-1])

            def newclass():
                nb = min(len(classes), rng.choice([0, 1, 1, 2]))
                bases = tuple(rng.sample(classes, nb)) or (object,)
                try:
                    C = type('C%d_%d' % (tno, len(classes)), bases, {})
                except TypeError:       # no consistent MRO
                    return
                r = rng.random()
                some = rng.sample(ifaces, rng.randint(0, 2))
                script.append('class C%d(%s): pass' % (
                    len(classes), ', '.join(nm(x) if x is not object else
                                            'object' for x in bases)))
                classes.append(C)
                if r < .3:
                    script.append('implementer(%s)(%s)' % (
                        ', '.join(map(nm, some)), nm(C)))
                    zi.implementer(*some)(C)
                elif r < .4:
                    script.append('implementer_only(%s)(%s)' % (
                        ', '.join(map(nm, some)), nm(C)))
                    zi.implementer_only(*some)(C)
            for k in range(rng.randint(2, 5)):
                newclass()
            if not classes:
                continue

            def newobj():
                C = rng.choice(classes)
                script.append('o%d = %s()' % (len(objs), nm(C)))
                objs.append(C())
            for k in range(rng.randint(1, 5)):
                newobj()

            class Observer:
                """a dependent of some class specifications that DECLARES
                from inside the change notification (additive declarations
                only), as a component that marks classes on the fly does"""
                budget = rng.randint(0, 3)
                busy = False

                def changed(self, spec):
                    if self.busy or self.budget <= 0 or rng.random() < .5:
                        return
                    self.busy = True
                    self.budget -= 1
                    saved, R.depth = R.depth, 0
                    R.reentered += 1
                    R.inside += 1
                    script.append('# from inside the change notification '
                                  'of the PREVIOUS line:')
                    try:
                        if rng.random() < .6:
                            call('classImplements', rng.choice(classes),
                                 rng.choice(ifaces))
                        else:
                            call('alsoProvides', rng.choice(objs),
                                 rng.choice(ifaces))
                    finally:
                        R.depth = saved
                        R.inside -= 1
                        self.busy = False
            observer = Observer()
            if rng.random() < .5:
                for C in rng.sample(classes, rng.randint(1, len(classes))):
                    script.append('implementedBy(%s).subscribe(observer)'
                                  % nm(C))
                    D.implementedBy(C).subscribe(observer)
            for step in range(nevents):
                r = rng.random()
                some = rng.sample(ifaces, rng.randint(0, 2))
                if rng.random() < .05:
                    # a specification as an argument: not modelled, target
                    # becomes untracked
                    # (of a class outside the universe: no cycles)
                    donor = type('Donor', (object,), {})
                    zi.classImplements(donor, *rng.sample(ifaces, 1))
                    some.append(zi.implementedBy(donor))
                C = rng.choice(classes)
                ob = rng.choice(objs)
                I = rng.choice(ifaces)
                if r < .12:
                    call('classImplements', C, *some)
                elif r < .16:
                    call('classImplementsFirst', C, I)
                elif r < .20:
                    call('classImplementsOnly', C, *some)
                elif r < .28:
                    call('directlyProvides', ob, *some)
                elif r < .38:
                    call('alsoProvides', ob, *some)
                elif r < .46:
                    try:
                        call('noLongerProvides', ob, I)
                    except ValueError:  # provided by the class: documented
                        pass
                elif r < .49 and len(classes) < 6:
                    newclass()
                elif r < .54 and len(ifaces) > 1:
                    # re-base an interface under the live declarations
                    k = rng.randrange(1, len(ifaces))
                    nb = min(k, rng.choice([0, 1, 1, 2]))
                    bases = tuple(rng.sample(ifaces[:k], nb)) or (Interface,)
                    script.append('I%d.__bases__ = (%s,)' % (k, ', '.join(
                        nm(x) if x is not Interface else 'Interface'
                        for x in bases)))
                    R.depth += 1    # calls made by the library meanwhile
                    try:            # are not the program's
                        ifaces[k].__bases__ = bases
                    finally:
                        R.depth -= 1
                    R.rebased()
                elif r < .57 and len(objs) < 5:
                    newobj()
                elif r < .60:
                    # the class as an object
                    q = rng.random()
                    if q < .3:
                        call('alsoProvides', C, *some)
                    elif q < .45:
                        call('directlyProvides', C, *some)
                    elif q < .55:
                        script.append('provider(%s)(%s)' % (
                            ', '.join(map(nm, some)), nm(C)))
                        zi.provider(*some)(C)
                    elif q < .65:
                        try:
                            call('noLongerProvides', C, I)
                        except ValueError:
                            pass
                    elif q < .8:
                        call('providedBy', C)
                    else:
                        script.append('%s.providedBy(%s)' % (nm(I), nm(C)))
                        I.providedBy(C)
                elif r < .62:
                    call('directlyProvidedBy', rng.choice([ob, ob, C]))
                elif r < .66:
                    call('providedBy', ob)
                elif r < .76:
                    call('implementedBy', C)
                elif r < .90:
                    script.append('%s.providedBy(%s)' % (nm(I), nm(ob)))
                    I.providedBy(ob)
                else:
                    script.append('%s.implementedBy(%s)' % (nm(I), nm(C)))
                    I.implementedBy(C)
                if os.environ.get('DECL_DEBUG') == '%d/%d' % (tno, step):
                    REC[0] = None
                    script.append('#   ' + '; '.join(
                        '%s: declared %s bases %s' % (
                            nm(K), [nm(x) for x in
                                    D.implementedBy(K).declared],
                            [nm(x) if x in ifaces else str(x) for x in
                             D.implementedBy(K).__bases__])
                        for K in classes))
                    script.append('#   ' + '; '.join(
                        '%s: %s' % (nm(o), getattr(o, '__provides__', None)
                                    and o.__provides__.__bases__)
                        for o in objs))
                    script.append('#   ' + '; '.join(
                        '%s: %s' % (nm(i), i.__bases__) for i in ifaces))
                    REC[0] = R
        except Exception as e:      # noqa: the driver makes valid calls only
            import traceback
            R.ev = [x for x in R.ev if x is not None]
            R.log(op='exception', what=(
                '%s: %s' % (type(e).__name__, e))[:200] + ' @ ' +
                traceback.format_exc().strip().splitlines()[-3].strip()[:120])
        finally:
            REC[0] = None
        t = R.trace()
        t['file'] = 'random %d/%d' % (seed, tno)
        t['script'] = script
        out.append(t)
    return out


install()
if job.get('mode') == 'random':
    traces, notes = random_traces(job['seed'], job['traces'],
                                  job['events']), {}
else:
    traces, notes = run(job['files'])
childlib.done({'impl': impl, 'traces': traces, 'notes': notes})
