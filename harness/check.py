import os
import subprocess
import sys

HERE = os.path.dirname(os.path.abspath(__file__))
DISPATCH = {
    'C02': 'check_specgraph.py', 'C03': 'check_specgraph.py',
    'C15': 'check_specgraph.py',
    'C04': 'check_registry.py', 'C05': 'check_registry.py',
    'C06': 'check_registry.py', 'C07': 'check_registry.py',
    'C08': 'check_registry.py', 'C09': 'check_registry.py',
    'C01': 'check_declarations.py', 'C13': 'check_declarations.py',
    'C19': 'check_declarations.py', 'C20': 'check_declalgebra.py',
    'C10': 'check_c10.py', 'C11': 'check_lookupmem.py',
    'C12': 'check_ordering.py', 'C14': 'check_adapt.py',
    'C16': 'check_components.py', 'C17': 'check_signatures.py',
    'C18': 'check_signatures.py',
}


def main(argv):
    if not argv:
        print('usage: check <Cnn> [--tier quick|thorough] [--replay path]')
        return 2
    pid = argv[0]
    tier = os.environ.get('VERIF_TIER', 'quick')
    replay = None
    i = 1
    while i < len(argv):
        if argv[i] == '--tier':
            tier = argv[i + 1]
            i += 2
        elif argv[i] == '--replay':
            replay = argv[i + 1]
            i += 2
        else:
            i += 1
    if tier not in ('quick', 'thorough'):
        tier = 'quick'
    script = DISPATCH.get(pid)
    if script is None:
        print('no check for %s' % pid)
        return 2
    if replay and pid != 'C10':
        sys.path.insert(0, HERE)
        import common
        try:
            return common.replay_generic(pid, replay)
        except common.MachineryError as e:
            print('MACHINERY FAILURE: %s' % e)
            return 2
    cmd = [sys.executable, os.path.join(HERE, script), pid, tier]
    if replay:
        cmd += ['--replay', replay]
    return subprocess.call(cmd, cwd=HERE)


if __name__ == '__main__':
    sys.exit(main(sys.argv[1:]))
