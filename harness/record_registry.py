"""Child: RECORDS traces of registry API calls made on the real code, for
validation by spec/TraceRegistry.tla (code -> spec conformance).

job = {"mode": "random", "traces": n, "events": m, "seed": s}
    a seeded random driver over a universe larger than TLC generates from
    (12 interfaces in a random DAG that is re-based along the way, class
    declarations, 4 registries of either flavour with re-based chains,
    arity 0..3, equal-but-distinct values), every entry point
job = {"mode": "doctest", "files": [...]}
    the repository's own doctests, run with a recorder wrapped around
    BaseAdapterRegistry and the lookup methods every registry delegates to

result = {"traces": [{"regs": [...], "ev": [...]}, ...], "notes": {...}}
"""
import childlib
impl = childlib.boot()

import doctest
import os
import random

import zope.interface
from zope.interface import Interface, implementedBy
from zope.interface import adapter as adapter_mod
from zope.interface.adapter import (AdapterRegistry, BaseAdapterRegistry,
                                    VerifyingAdapterRegistry)
from zope.interface.interface import InterfaceClass

job = childlib.job()
NONE = -1


class Ids:
    """identity -> small integer; keeps the objects alive (ids are reused
    after collection)"""

    def __init__(self, first=1):
        self.by_id = {}
        self.objs = []
        self.next = first

    def get(self, ob):
        e = self.by_id.get(id(ob))
        if e is not None and e[1] is ob:
            return e[0]
        n = self.next
        self.next += 1
        self.by_id[id(ob)] = (n, ob)
        self.objs.append(ob)
        return n


class Recorder:
    def __init__(self):
        self.specs = Ids()
        self.specs.by_id[id(Interface)] = (0, Interface)
        self.provs = Ids()
        self.vals = Ids()
        self.regs = Ids()
        self.ev = []
        self.seen_prov = []

    def sid(self, s):
        return 0 if s is None else self.specs.get(s)

    def pid(self, p):
        if p is None:
            return NONE
        n = self.provs.get(p)
        if all(q is not p for q in self.seen_prov):
            self.seen_prov.append(p)
        return n

    def vid(self, v):
        return NONE if v is None else self.vals.get(v)

    def world(self, required, provided):
        """what the real objects say, now, about the looked-up specs"""
        specs = [Interface if s is None else s for s in required]
        sro = [[self.sid(x) for x in s.__sro__] for s in specs]
        pool = []
        for s in specs:
            for x in s.__sro__:
                if all(x is not y for y in pool):
                    pool.append(x)
        sext = [[self.sid(x), self.sid(y)] for x in pool for y in pool
                if x is not y and x.isOrExtends(y)]
        if provided is not None:
            self.pid(provided)
        pext = [[self.pid(x), self.pid(y)] for x in self.seen_prov
                for y in self.seen_prov
                if x is not y and x.isOrExtends(y)]
        return {'req': [self.sid(s) for s in specs], 'sro': sro,
                'sext': sext, 'pext': pext, 'prov': self.pid(provided)}

    def log(self, **e):
        self.ev.append(e)

    def trace(self):
        return {'regs': sorted(e[0] for e in self.regs.by_id.values()),
                'ev': self.ev}


REC = [None]


def rec():
    return REC[0]


# --------------------------------------------------------------------------
# wrapping the registry API (used by both modes)

_orig = {}


def install():
    B = BaseAdapterRegistry

    def wrap(name, fn):
        _orig[name] = getattr(B, name)
        setattr(B, name, fn)

    def register(self, required, provided, name, value):
        required = tuple(required)
        r = _orig['register'](self, required, provided, name, value)
        R = rec()
        if R is not None:
            R.log(op='register', g=R.regs.get(self),
                  req=[R.sid(s) for s in required], prov=R.pid(provided),
                  name=name, val=R.vid(value))
        return r

    def unregister(self, required, provided, name, value=None):
        required = tuple(required)
        r = _orig['unregister'](self, required, provided, name, value)
        R = rec()
        if R is not None:
            R.log(op='unregister', g=R.regs.get(self),
                  req=[R.sid(s) for s in required], prov=R.pid(provided),
                  name=name, val=R.vid(value))
        return r

    def subscribe(self, required, provided, value):
        required = tuple(required)
        r = _orig['subscribe'](self, required, provided, value)
        R = rec()
        if R is not None:
            R.log(op='subscribe', g=R.regs.get(self),
                  req=[R.sid(s) for s in required], prov=R.pid(provided),
                  val=R.vid(value))
        return r

    def unsubscribe(self, required, provided, value=None):
        required = tuple(required)
        R = rec()
        eq = []
        if R is not None and value is not None:
            for v in list(R.vals.objs):
                try:
                    if v == value:
                        eq.append(R.vid(v))
                except Exception:       # noqa
                    pass
            if R.vid(value) not in eq:
                eq.append(R.vid(value))
        r = _orig['unsubscribe'](self, required, provided, value)
        if R is not None:
            R.log(op='unsubscribe', g=R.regs.get(self),
                  req=[R.sid(s) for s in required], prov=R.pid(provided),
                  val=R.vid(value), eq=eq)
        return r

    def _setBases(self, bases):
        r = _orig['_setBases'](self, bases)
        R = rec()
        if R is not None:
            R.log(op='setBases', g=R.regs.get(self),
                  bases=[R.regs.get(b) for b in bases])
        return r

    def rebuild(self):
        R = rec()
        REC[0] = None            # rebuild() re-registers everything itself
        try:
            r = _orig['rebuild'](self)
        finally:
            REC[0] = R
        if R is not None:
            R.log(op='rebuild', g=R.regs.get(self))
        return r

    def registered(self, required, provided, name=''):
        required = tuple(required)
        r = _orig['registered'](self, required, provided, name)
        R = rec()
        if R is not None:
            R.log(op='registered', g=R.regs.get(self),
                  req=[R.sid(s) for s in required], prov=R.pid(provided),
                  name=name, res=R.vid(r))
        return r

    def _createLookup(self):
        _orig['_createLookup'](self)
        reg = self
        d = self.__dict__

        def lookup(required, provided, name='', default=None,
                   _f=d['lookup']):
            required = tuple(required)
            r = _f(required, provided, name, default)
            R = rec()
            if R is not None and provided is not None:
                R.log(op='lookup', via='lookup', g=R.regs.get(reg),
                      name=name, res=NONE if r is default else R.vid(r),
                      **R.world(required, provided))
            return r

        def lookup1(required, provided, name='', default=None,
                    _f=d['lookup1']):
            r = _f(required, provided, name, default)
            R = rec()
            if R is not None:
                R.log(op='lookup', via='lookup1', g=R.regs.get(reg),
                      name=name, res=NONE if r is default else R.vid(r),
                      **R.world((required,), provided))
            return r

        def lookupAll(required, provided, _f=d['lookupAll']):
            required = tuple(required)
            r = _f(required, provided)
            R = rec()
            if R is not None:
                items = sorted(((n, R.vid(v)) for n, v in r),
                               key=lambda t: t[0])
                R.log(op='lookupAll', g=R.regs.get(reg),
                      res=[[n, v] for n, v in items],
                      **R.world(required, provided))
            return r

        def subscriptions(required, provided, _f=d['subscriptions']):
            required = tuple(required)
            r = _f(required, provided)
            R = rec()
            if R is not None:
                w = R.world(required, provided)
                R.log(op='subscriptions', g=R.regs.get(reg),
                      res=[R.vid(v) for v in r], **w)
            return r
        d['lookup'] = lookup
        d['lookup1'] = lookup1
        d['lookupAll'] = lookupAll
        d['subscriptions'] = subscriptions

    for n, f in (('register', register), ('unregister', unregister),
                 ('subscribe', subscribe), ('unsubscribe', unsubscribe),
                 ('_setBases', _setBases), ('rebuild', rebuild),
                 ('registered', registered),
                 ('_createLookup', _createLookup)):
        wrap(n, f)


# --------------------------------------------------------------------------
# mode: random driver

class V:
    def __init__(self, n, eq):
        self.n = n
        self.eq = eq

    def __call__(self, *a):
        return Result(self)

    def __eq__(self, other):
        return isinstance(other, V) and other.eq == self.eq

    def __ne__(self, other):
        return not self.__eq__(other)

    def __hash__(self):
        return hash(self.eq)


class Result:
    def __init__(self, v):
        self.v = v


class Carrier:
    pass


def random_trace(rnd, nev):
    R = REC[0] = Recorder()
    mod = 'recworld%d' % rnd.randrange(10 ** 9)
    NI = 12
    ifs = []
    for i in range(NI):
        nb = rnd.choice([0, 1, 1, 2, 2, 3])
        bases = tuple(rnd.sample(ifs, min(nb, len(ifs))))
        try:
            I = InterfaceClass('R%d' % i, bases or (Interface,),
                               __module__=mod)
        except Exception:       # inconsistent order: still a valid interface
            continue
        ifs.append(I)
    classes = []
    for i in range(3):
        K = type('K%d' % i, (object,), {})
        s = implementedBy(K)
        s.__bases__ = tuple(rnd.sample(ifs, rnd.randrange(1, 3))) + \
            (implementedBy(object),)
        classes.append(s)
    specs = ifs + classes
    provs = []
    for i in range(5):
        bases = tuple(rnd.sample(provs, min(rnd.choice([0, 1, 1, 2]),
                                            len(provs))))
        provs.append(InterfaceClass('P%d' % i, bases or (Interface,),
                                    __module__=mod))
    cls = rnd.choice([AdapterRegistry, VerifyingAdapterRegistry])
    regs = [cls() for _ in range(4)]
    for r in regs:
        R.regs.get(r)
    vals = [V(i, i if i < 6 else i - 1) for i in range(8)]   # 6 == 7
    names = ['', 'n', 'é']

    def reqkey(arity=None):
        a = rnd.choice([0, 1, 1, 1, 2, 2, 3]) if arity is None else arity
        return [rnd.choice(specs + [None]) for _ in range(a)]

    live = []
    slive = []
    asked = []          # queries already answered: re-asked after mutations
    for _ in range(nev):
        k = rnd.random()
        g = rnd.choice(regs)
        try:
            if k < 0.22:
                key = (g, reqkey(), rnd.choice(provs), rnd.choice(names))
                g.register(key[1], key[2], key[3], rnd.choice(vals))
                live.append(key)
            elif k < 0.30 and live:
                key = rnd.choice(live)
                if rnd.random() < 0.5:
                    key[0].unregister(key[1], key[2], key[3])
                else:
                    key[0].unregister(key[1], key[2], key[3],
                                      rnd.choice(vals))
            elif k < 0.42:
                key = (g, reqkey(), rnd.choice(provs + [None]))
                g.subscribe(key[1], key[2], rnd.choice(vals))
                slive.append(key)
            elif k < 0.48 and slive:
                key = rnd.choice(slive)
                if rnd.random() < 0.4:
                    key[0].unsubscribe(key[1], key[2])
                else:
                    key[0].unsubscribe(key[1], key[2], rnd.choice(vals))
            elif k < 0.53:
                i = regs.index(g)
                cand = regs[:i]
                # derived registries before their bases: the chain always
                # has a C3 order (C06 speaks of that order)
                pick = rnd.sample(cand, min(len(cand), rnd.randrange(3)))
                pick.sort(key=regs.index, reverse=True)
                g.__bases__ = tuple(pick)
            elif k < 0.55:
                g.rebuild()
            elif k < 0.59:
                # re-base an interface (keeping the graph acyclic: only
                # earlier interfaces as bases)
                i = rnd.randrange(1, len(ifs))
                nb = tuple(rnd.sample(ifs[:i], min(i, rnd.randrange(1, 3))))
                try:
                    ifs[i].__bases__ = nb
                except Exception:       # noqa
                    pass
            elif k < 0.80:
                via = rnd.choice(['lookup', 'lookup1', 'hook',
                                  'queryAdapter', 'multi'])
                lq = [q for q in asked if len(q) == 4]
                if lq and rnd.random() < 0.45:
                    q = rnd.choice(lq)          # same key, maybe cached
                else:
                    base = rnd.choice(live) if live and rnd.random() < 0.7 \
                        else (g, reqkey(), rnd.choice(provs),
                              rnd.choice(names))
                    q = (rnd.choice(regs),
                         [narrow(rnd, specs, s) for s in base[1]], base[2],
                         base[3])
                    asked.append(q)
                    del asked[:-12]
                do_lookup(R, q[0], via, q[1], q[2], q[3], rnd)
            elif k < 0.88:
                base = rnd.choice(live) if live else \
                    (g, reqkey(), rnd.choice(provs), '')
                g.lookupAll([narrow(rnd, specs, s) for s in base[1]],
                            base[2])
            elif k < 0.97:
                sq = [q for q in asked if len(q) == 3]
                if sq and rnd.random() < 0.45:
                    q = rnd.choice(sq)
                else:
                    base = rnd.choice(slive) if slive and \
                        rnd.random() < 0.8 else \
                        (g, reqkey(), rnd.choice(provs + [None]))
                    q = (rnd.choice(regs),
                         [narrow(rnd, specs, s) for s in base[1]], base[2])
                    asked.append(q)
                q[0].subscriptions(q[1], q[2])
            elif live:
                key = rnd.choice(live)
                key[0].registered(key[1], key[2], key[3])
        except Exception as e:      # the code under test raised
            R.log(op='exception', what='%s: %s' % (type(e).__name__, e))
    REC[0] = None
    return R.trace()


def narrow(rnd, specs, s):
    """a specification that is or extends s (what a lookup for an object
    would use)"""
    if s is None:
        return rnd.choice(specs)
    c = [x for x in specs if x.isOrExtends(s)]
    return rnd.choice(c)


DEFAULTS = [object(), object()]


def do_lookup(R, g, via, req, prov, name, rnd):
    # with a default object of the caller's, or none
    dargs = rnd.choice([(), (DEFAULTS[0],), (DEFAULTS[1],)])
    if via == 'lookup' or (via in ('lookup1', 'hook', 'queryAdapter') and
                           len(req) != 1):
        r = g.lookup(req, prov, name, *dargs)
        if any(r is d for d in DEFAULTS) and (not dargs or
                                               r is not dargs[0]):
            R.log(op='exception', what='lookup returned a default object '
                  'passed to an earlier call')
        return
    if via == 'lookup1':
        r = g.lookup1(req[0], prov, name, *dargs)
        if any(r is d for d in DEFAULTS) and (not dargs or
                                               r is not dargs[0]):
            R.log(op='exception', what='lookup1 returned a default object '
                  'passed to an earlier call')
        return
    # object-based entry points: the factory found is visible through the
    # result (values are factories returning a Result that remembers them)
    objs = []
    for s in req:
        c = Carrier()
        c.__providedBy__ = s
        objs.append(c)
    REC[0] = None       # the calls below are logged here, as one event
    try:
        if via == 'hook':
            r = g.adapter_hook(prov, objs[0], name)
        elif via == 'queryAdapter':
            r = g.queryAdapter(objs[0], prov, name)
        else:
            r = g.queryMultiAdapter(objs, prov, name)
    finally:
        REC[0] = R
    R.log(op='lookup', via=via, g=R.regs.get(g), name=name,
          res=R.vid(r.v) if isinstance(r, Result) else NONE,
          **R.world(req, prov))


# --------------------------------------------------------------------------
# mode: the repository's doctests

def doctest_traces(files):
    out = []
    notes = {}
    for path in files:
        R = REC[0] = Recorder()
        try:
            import contextlib
            import io
            with contextlib.redirect_stdout(io.StringIO()):
                res = doctest.testfile(path, module_relative=False,
                                       optionflags=doctest.ELLIPSIS |
                                       doctest.NORMALIZE_WHITESPACE,
                                       verbose=False, report=False)
            notes[os.path.basename(path)] = {
                'attempted': res.attempted, 'failed': res.failed}
        finally:
            REC[0] = None
        out.append(R.trace())
    return out, notes


install()
if job['mode'] == 'random':
    rnd = random.Random(job.get('seed', 0))
    traces = [random_trace(rnd, job['events'])
              for _ in range(job['traces'])]
    notes = {}
else:
    traces, notes = doctest_traces(job['files'])
childlib.done({'impl': impl, 'traces': traces, 'notes': notes})
