"""Child: replays Declarations.tla behaviours into real classes, instances
and interfaces; compares providedBy / implementedBy / super / pickling with
the [must, may] intervals TLC computed from the declaration history.

job = {"props": ["C01"|"C13"|"C19"], "ibases": {...}, "pybases": {...},
       "classof": [...], "cases": [{"steps": [{"act":..., "obs":...}]}]}
"""
import childlib
impl = childlib.boot()

import pickle
import pickletools
import random
import sys
import types

import zope.interface
from zope.interface import Interface, alsoProvides, classImplements
from zope.interface import classImplementsFirst, classImplementsOnly
from zope.interface import directlyProvidedBy, directlyProvides
from zope.interface import implementedBy, implementer, implementer_only
from zope.interface import noLongerProvides, providedBy, provider
from zope.interface.interface import InterfaceClass
from zope.interface.declarations import BuiltinImplementationSpecifications

job = childlib.job()
PROPS = set(job['props'])
rnd = random.Random(job.get('seed', 0))
evaluations = 0
mismatches = []


def fget(f, k):
    if isinstance(f, dict):
        return f[str(k)]
    return f[k - 1]


def mism(ctx, what, expected, got):
    if len(mismatches) < 80:
        mismatches.append({'ctx': ctx, 'what': what, 'expected': expected,
                           'got': got, 'impl': impl, 'case_idx': childlib.CASE[0]})


class Watcher:
    def changed(self, originally_changed):
        pass


WATCHER = Watcher()


class FalsyMeta(type):
    """classes that are false in a boolean context"""

    def __bool__(cls):
        return False


class World:
    serial = 0

    def __init__(self):
        World.serial += 1
        self.modname = 'verif_decl_world_%d_%d' % (job.get('shard', 0),
                                                   World.serial)
        self.mod = types.ModuleType(self.modname)
        sys.modules[self.modname] = self.mod
        ib = job['ibases']
        self.iface = {0: Interface}
        for i in range(1, len(ib)):
            bases = tuple(self.iface[b] for b in fget0(ib, i)) or (Interface,)
            if (i + World.serial) % 2:
                # a class statement inside a function, published in its
                # module under its name: importable, but its qualified name
                # ('make.<locals>.I1') is not a path to it
                ns = {'bases': bases, '__name__': self.modname}
                exec('def make():\n    class I%d(*bases):\n        pass\n'
                     '    return I%d\n' % (i, i), ns)
                I = ns['make']()
            else:
                I = InterfaceClass('I%d' % i, bases, __module__=self.modname)
            self.iface[i] = I
            setattr(self.mod, 'I%d' % i, I)
        pb = job['pybases']
        self.cls = {0: object}
        self.builtins = []
        for c in range(1, len(pb)):
            bt = (job.get('builtin') or {}).get(str(c))
            if bt:
                # a real built-in (immutable) type stands for this class
                import builtins
                K = getattr(builtins, bt)
                BuiltinImplementationSpecifications.pop(K, None)
                self.builtins.append(K)
                self.cls[c] = K
                continue
            mcls = FalsyMeta if job.get('falsy_classes') else type
            K = mcls('K%d' % c, tuple(self.cls[b] for b in fget0(pb, c)),
                     {'__module__': self.modname})
            self.cls[c] = K
            setattr(self.mod, 'K%d' % c, K)
        self.obj = {}
        for i, c in enumerate(job['classof']):
            self.obj[i + 1] = self.cls[c]()
        self.watched = {}
        self.held = {}

    def watch(self):
        """Specifications in use are WATCHED: lookup caches that were asked
        about an object are dependents of its declaration.  A dependent that
        does nothing is subscribed to every declaration reachable from the
        world's classes and instances."""
        for x in list(self.cls.values())[1:] + list(self.obj.values()):
            for spec in (getattr(x, '__provides__', None),
                         getattr(x, '__implemented__', None)):
                sub = getattr(spec, 'subscribe', None)
                if sub is None or id(spec) in self.watched:
                    continue
                try:
                    sub(WATCHER)
                except TypeError:
                    continue
                self.watched[id(spec)] = spec

    def close(self):
        for spec in self.watched.values():
            try:
                spec.unsubscribe(WATCHER)
            except KeyError:
                pass
        sys.modules.pop(self.modname, None)
        for K in self.builtins:
            BuiltinImplementationSpecifications.pop(K, None)

    def ifs(self, ids):
        return [self.iface[i] for i in ids]

    def idset(self, spec_iter):
        out = set()
        for x in spec_iter:
            for k, v in self.iface.items():
                if v is x:
                    out.add(k)
                    break
            else:
                out.add('foreign:%r' % (x,))
        return out

    def apply(self, act, ctx):
        op = act['op']
        if op == 'query':
            implementedBy(self.cls[act['c']])
        elif op == 'classImplements':
            if rnd.random() < 0.5:
                classImplements(self.cls[act['c']], *self.ifs(act['ifs']))
            else:
                implementer(*self.ifs(act['ifs']))(self.cls[act['c']])
        elif op == 'classImplementsOnly':
            if rnd.random() < 0.5:
                classImplementsOnly(self.cls[act['c']], *self.ifs(act['ifs']))
            else:
                implementer_only(*self.ifs(act['ifs']))(self.cls[act['c']])
        elif op == 'classImplementsFirst':
            classImplementsFirst(self.cls[act['c']], self.iface[act['ifs'][0]])
        elif op == 'directlyProvides':
            directlyProvides(self.obj[act['o']], *self.ifs(act['ifs']))
        elif op == 'alsoProvides':
            alsoProvides(self.obj[act['o']], *self.ifs(act['ifs']))
        elif op == 'noLongerProvides':
            try:
                noLongerProvides(self.obj[act['o']], self.iface[act['ifs'][0]])
                raised = False
            except ValueError:
                raised = True
            # raising is decided by whether the interface is still provided,
            # which the final probe checks against the interval; only a
            # definite contradiction is reported here
            if 'C01' in PROPS and raised != act['raises'] and \
                    act.get('raises_definite'):
                mism(ctx, 'noLongerProvides raises', act['raises'], raised)
        elif op == 'classProvides':
            if rnd.random() < 0.5:
                directlyProvides(self.cls[act['c']], *self.ifs(act['ifs']))
            else:
                provider(*self.ifs(act['ifs']))(self.cls[act['c']])
        elif op == 'alsoClassProvides':
            alsoProvides(self.cls[act['c']], *self.ifs(act['ifs']))
        elif op == 'superQuery':
            o = [x for i, x in self.obj.items()
                 if job['classof'][i - 1] == act['t']][0]
            # the specification handed out is kept: it is a live
            # specification and must go on following the classes after C
            self.held[(act['c'], act['t'])] = providedBy(
                super(self.cls[act['c']], o))
        else:
            raise ValueError(op)

    # ------------------------------------------------------------------
    def within(self, got, must, may, ctx, what):
        global evaluations
        evaluations += 1
        if not (set(must) <= got <= set(may)):
            mism(ctx, what, {'must': sorted(must), 'may': sorted(may)},
                 sorted(got, key=str))

    def probe(self, obs, ctx):
        if 'C01' in PROPS:
            self.probe_c01(obs, ctx)
        if 'C19' in PROPS:
            self.probe_c19(obs, ctx)
        if 'C13' in PROPS:
            self.probe_c13(obs, ctx)

    def probe_c01(self, obs, ctx):
        for o, ob in self.obj.items():
            e = fget(obs['objs'], o)
            spec = providedBy(ob)
            got = self.idset(spec.flattened())
            self.within(got, e['must'], e['may'], ctx,
                        'providedBy(o%d).flattened()' % o)
            for i, I in self.iface.items():
                g = I.providedBy(ob)
                if bool(g) != (i in got):
                    mism(ctx, 'I%d.providedBy(o%d) vs providedBy(o%d)' % (
                        i, o, o), i in got, g)
                if bool(spec.isOrExtends(I)) != (i in got):
                    mism(ctx, 'providedBy(o%d).isOrExtends(I%d)' % (o, i),
                         i in got, spec.isOrExtends(I))
            d = directlyProvidedBy(ob)
            dgot = self.idset(d.flattened()) - {0}
            self.within(dgot, e['dmust'], set(e['dmay']) - {0}, ctx,
                        'directlyProvidedBy(o%d).flattened()' % o)
        for c, K in self.cls.items():
            if c == 0:
                continue
            e = fget(obs['clss'], c)
            spec = implementedBy(K)
            got = self.idset(spec.flattened())
            self.within(got, e['must'], e['may'], ctx,
                        'implementedBy(K%d).flattened()' % c)
            for i, I in self.iface.items():
                g = I.implementedBy(K)
                if bool(g) != (i in got):
                    mism(ctx, 'I%d.implementedBy(K%d) vs implementedBy' % (
                        i, c), i in got, g)
            # a fresh instance without direct declarations provides what the
            # class implements
            fresh = K()
            fg = self.idset(providedBy(fresh).flattened())
            if fg != got:
                mism(ctx, 'providedBy(K%d()) vs implementedBy(K%d)' % (c, c),
                     sorted(got, key=str), sorted(fg, key=str))
            cg = self.idset(providedBy(K).flattened())
            if cg != set(e['cobj']):
                mism(ctx, 'providedBy(K%d) [the class object]' % c,
                     sorted(e['cobj']), sorted(cg, key=str))

    def probe_c19(self, obs, ctx):
        for s in obs['sups']:
            t, c = s['t'], s['c']
            cands = [(o, ob) for o, ob in self.obj.items()
                     if job['classof'][o - 1] == t]
            # an instance that carries a declaration of its OWN in its
            # __dict__ (implementer() applied to an instance): the proxy must
            # not pick that up either
            own = self.cls[t]()
            implementer(self.iface[max(self.iface)])(own)
            cands.append((0, own))
            held = self.held.get((c, t))
            if held is not None:
                self.within(self.idset(held.flattened()), s['must'],
                            s['may'], ctx,
                            'the specification providedBy(super(K%d, <K%d>)) '
                            'returned EARLIER, asked now' % (c, t))
            for o, ob in cands:
                sup = super(self.cls[c], ob)
                got = self.idset(providedBy(sup).flattened())
                self.within(got, s['must'], s['may'], ctx,
                            'providedBy(super(K%d, o%d))' % (c, o))
                got2 = self.idset(implementedBy(sup).flattened())
                if got2 != got:
                    mism(ctx, 'implementedBy(super(K%d, o%d)) vs providedBy'
                         % (c, o), sorted(got, key=str),
                         sorted(got2, key=str))
                for i, I in self.iface.items():
                    if bool(I.providedBy(sup)) != (i in got):
                        mism(ctx, 'I%d.providedBy(super(K%d, o%d))' % (
                            i, c, o), i in got, I.providedBy(sup))
                self.super_adapt(sup, ob, got, ctx, c, o)

    def super_adapt(self, sup, ob, got, ctx, c, o):
        """registry adaptation of a super proxy selects by the proxy's
        specification and passes the underlying object"""
        from zope.interface.adapter import AdapterRegistry
        global evaluations
        evaluations += 1
        reg = AdapterRegistry()
        IP = self.iface[max(self.iface)]
        calls = []
        for i, I in self.iface.items():
            if i == 0:
                continue

            def fac(x, i=i):
                calls.append(x)
                return ('adapted', i)
            reg.register([I], IP, 'n%d' % i, fac)
        for i in self.iface:
            if i == 0:
                continue
            # every entry point twice: the second call is answered from the
            # lookup cache the first one filled
            for meth in ('queryAdapter', 'queryAdapter', 'adapter_hook',
                         'adapter_hook', 'multi', 'multi'):
                del calls[:]
                if meth == 'queryAdapter':
                    r = reg.queryAdapter(sup, IP, 'n%d' % i, None)
                elif meth == 'adapter_hook':
                    r = reg.adapter_hook(IP, sup, 'n%d' % i, None)
                else:
                    r = reg.queryMultiAdapter((sup,), IP, 'n%d' % i, None)
                exp = ('adapted', i) if i in got else None
                if r != exp:
                    mism(ctx, '%s(super(K%d, o%d), name=n%d)' % (
                        meth, c, o, i), exp, r)
                elif exp is not None and (len(calls) != 1 or
                                          calls[0] is not ob):
                    mism(ctx, '%s(super(K%d, o%d)) factory argument' % (
                        meth, c, o), 'the underlying object', repr(calls))

    def probe_c13(self, obs, ctx):
        global evaluations
        for proto in range(0, pickle.HIGHEST_PROTOCOL + 1):
            for i, I in self.iface.items():
                evaluations += 1
                data = pickle.dumps(I, proto)
                self.names_only(data, ctx, 'interface I%d' % i)
                if pickle.loads(data) is not I:
                    mism(ctx, 'pickle round trip of I%d (protocol %d)' % (
                        i, proto), 'identical object', 'different')
            for c, K in self.cls.items():
                if c == 0:
                    continue
                evaluations += 1
                spec = implementedBy(K)
                data = pickle.dumps(spec, proto)
                self.names_only(data, ctx, 'implementedBy(K%d)' % c)
                back = pickle.loads(data)
                if back is not spec:
                    mism(ctx, 'pickle round trip of implementedBy(K%d) '
                         '(protocol %d)' % (c, proto), 'identical object',
                         repr(back))
                elif not (back == spec and hash(back) == hash(spec)):
                    mism(ctx, 'unpickled implementedBy(K%d) equal/hash' % c,
                         True, False)
                # class-level provides declaration, pickled directly
                if K in self.builtins:
                    continue            # cannot carry a __provides__
                cp = K.__provides__
                data = pickle.dumps(cp, proto)
                self.names_only(data, ctx, 'K%d.__provides__' % c)
                back = pickle.loads(data)
                if self.idset(back.flattened()) != self.idset(cp.flattened()):
                    mism(ctx, 'unpickled K%d.__provides__ interfaces' % c,
                         sorted(self.idset(cp.flattened()), key=str),
                         sorted(self.idset(back.flattened()), key=str))
            for o, ob in self.obj.items():
                e = fget(obs['objs'], o)
                p = getattr(ob, '__provides__', None)
                if p is None or not hasattr(p, 'flattened') or \
                        '__provides__' not in ob.__dict__:
                    continue
                evaluations += 1
                data = pickle.dumps(p, proto)
                self.names_only(data, ctx, 'o%d.__provides__' % o)
                back = pickle.loads(data)
                got = self.idset(back.flattened())
                self.within(got, e['must'], e['may'], ctx,
                            'unpickled o%d.__provides__ (protocol %d)' % (
                                o, proto))
                orig = self.idset(p.flattened())
                tight = set(e['must']) == set(e['may'])
                if tight and got != orig:
                    mism(ctx, 'unpickled o%d.__provides__ interfaces' % o,
                         sorted(orig, key=str), sorted(got, key=str))
                if back is p and not (back == p and hash(back) == hash(p)):
                    mism(ctx, 'unpickled o%d.__provides__ equal/hash' % o,
                         True, False)
                if tight and not (back == p and hash(back) == hash(p)):
                    mism(ctx, 'unpickled o%d.__provides__ is equal and '
                         'hash-equal to the live original' % o, True, False)
                # the declared object itself
                data = pickle.dumps(ob, proto)
                self.names_only(data, ctx, 'object o%d' % o)
                ob2 = pickle.loads(data)
                got2 = self.idset(providedBy(ob2).flattened())
                self.within(got2, e['must'], e['may'], ctx,
                            'providedBy(unpickled o%d) (protocol %d)' % (
                                o, proto))
                if tight and got2 != self.idset(providedBy(ob).flattened()):
                    mism(ctx, 'providedBy(unpickled o%d)' % o,
                         sorted(self.idset(providedBy(ob).flattened()),
                                key=str), sorted(got2, key=str))

    def names_only(self, data, ctx, what):
        """the pickle stores references (names), never definitions"""
        for op, arg, pos in pickletools.genops(data):
            if op.name in ('BINUNICODE', 'SHORT_BINUNICODE', 'UNICODE',
                           'BINUNICODE8', 'STRING', 'BINSTRING',
                           'SHORT_BINSTRING', 'GLOBAL'):
                s = str(arg)
                for bad in ('__sro__', '__iro__', '_implied', '_dependents',
                            '__bases__', '_v_attrs', 'declared'):
                    if bad in s:
                        mism(ctx, 'pickle of %s stores definition state' %
                             what, 'names only', s)
                        return


def fget0(f, k):
    if isinstance(f, dict):
        return f[str(k)]
    return f[k]


def run_case(case):
    w = World()
    try:
        trail = []
        for st in case['steps']:
            trail.append({k: v for k, v in st['act'].items()})
            ctx = {'steps': list(trail)}
            w.apply(st['act'], ctx)
            if job.get('watch'):
                w.watch()
            if st.get('obs') is not None:
                w.probe(st['obs'], ctx)
    finally:
        w.close()


for childlib.CASE[0], case in enumerate(job['cases']):
    try:
        run_case(case)
    except Exception as e:
        import traceback
        tb = traceback.format_exc().strip().split('\n')
        mism({'steps': [s['act'] for s in case['steps']]},
             'unexpected exception', 'no exception',
             '%s: %s | %s' % (type(e).__name__, e, ' / '.join(tb[-6:])))
    if len(mismatches) >= 60:
        break

childlib.done({'evaluations': evaluations, 'mismatches': mismatches})
