#!/bin/bash
# mkwt.sh <name>: scratch git worktree of /repo's HEAD under /tmp/wt/<name>, C extension built in place, and a
# wrapper ./py that runs /venv/bin/python bound to THIS worktree's src (the editable install's .pth otherwise
# binds the `zope` namespace to /repo/src).  Remove with: git -C /repo worktree remove --force /tmp/wt/<name>
set -e
N=$1; W=/tmp/wt/$N
mkdir -p /tmp/wt
[ -d $W ] && git -C /repo worktree remove --force $W
git -C /repo worktree add -q --detach $W HEAD
cd $W
/venv/bin/python setup.py -q build_ext --inplace >/dev/null 2>&1
cat > $W/py <<PYEOF
#!/bin/bash
# usage: ./py script.py [args] | ./py -m module [args] | ./py -c code
export WT_SRC=$W/src
exec /venv/bin/python $W/.wtboot.py "\$@"
PYEOF
cat > $W/.wtboot.py <<'PYEOF'
import os, sys, runpy
import zope
zope.__path__.insert(0, os.path.join(os.environ['WT_SRC'], 'zope'))
sys.path.insert(0, os.environ['WT_SRC'])
import zope.interface
assert zope.interface.__file__.startswith(os.environ['WT_SRC']), zope.interface.__file__
args = sys.argv[1:]
if args[0] == '-m':
    sys.argv = args[1:]
    runpy.run_module(args[1], run_name='__main__', alter_sys=True)
elif args[0] == '-c':
    sys.argv = ['-c'] + args[2:]
    exec(compile(args[1], '<string>', 'exec'), {'__name__': '__main__'})
else:
    sys.argv = args
    sys.path.insert(0, os.path.dirname(os.path.abspath(args[0])))
    runpy.run_path(args[0], run_name='__main__')
PYEOF
chmod +x $W/py
EX=$(git -C $W rev-parse --git-path info/exclude); grep -q "^.wtboot.py$" $EX 2>/dev/null || printf "py\n.wtboot.py\n*.so\nbuild/\n_out/\n" >> $EX
echo $W
