"""Child: replays SpecGraph behaviours (TLC dumps) into real specification
objects and compares the observable projection with what the spec allows.

job = {"mode": "dag"|"hist", "prop": "C02"|"C03"|"C15", "N":..,
       "isiface": [...], "root_explicit": bool,
       "cases": [...]}
 dag case : Obs record of MC_SpecGraph_dag
 hist case: {"defA": [...], "steps": [{"act":..., "obs":... or None}, ...]}
result = {"evaluations": n, "mismatches": [...], "guard_failures": [...]}
"""
import childlib
impl = childlib.boot()

import gc
import sys

from zope.interface import Attribute, Interface, Invalid, implementedBy
from zope.interface import invariant, providedBy, taggedValue, directlyProvides
from zope.interface import ro as ro_mod
from zope.interface.declarations import Declaration, Implements
from zope.interface.declarations import ProvidesClass
from zope.interface.interface import InterfaceClass

job = childlib.job()
N = job['N']
ISIFACE = job['isiface']          # index 0 -> node 1
ROOTX = job['root_explicit']
PROP = job['prop']
VALID_ONLY = bool(job.get('valid_only'))
# twins: distinct interface objects with equal (__name__, __module__); for
# membership questions they are the same interface (by design of equality)
TWIN = {}
for _a, _b in job.get('twins') or []:
    TWIN[_b] = _a


def canon(x):
    return TWIN.get(x, x)
PROPS = {'C02', 'C03', 'C15'} if PROP == 'C10' else {PROP}
evaluations = 0
mismatches = []
guard_failures = []


def fget(f, k):
    """TLC functions arrive as dict (string keys) or list (domain 1..n)."""
    if isinstance(f, dict):
        return f[str(k)]
    return f[k - 1]


def shared_inv(ob):
    """ONE callable registered as an invariant on every defining interface:
    it runs once per interface of the resolution order that lists it"""
    raise Invalid('shared')


class World:
    serial = 0

    def __init__(self, defA, bases=None, build='ctor'):
        # interfaces are equal iff (name, module) are equal, and the weak
        # dependents tables are keyed by equality: every world needs its own
        # module name or worlds alias each other.
        World.serial += 1
        self.module = 'verifworld%d' % World.serial
        self.defA = set(defA)
        self.obj = {0: Interface}
        self.carrier = {}
        self.kind = {}
        init = (Interface,) if ROOTX else ()
        order = list(range(1, N + 1))
        for n in order:
            if bases is not None and build == 'ctor':
                b = tuple(self.obj[m] for m in fget(bases, n))
            else:
                b = init
            self.obj[n] = self._make(n, b)
        if bases is not None and build == 'assign':
            for n in reversed(order):
                self.obj[n].__bases__ = tuple(self.obj[m]
                                              for m in fget(bases, n))

    def _make(self, n, b):
        if ISIFACE[n - 1]:
            attrs = {'b%d' % n: Attribute('b%d' % n)}
            if n in self.defA:
                attrs['a'] = Attribute('a@%d' % n)

                def inv(ob, n=n):
                    raise Invalid(n)
                # the tagged-data protocol used by taggedValue()/invariant()
                # 'z' is a tag whose VALUE is None, 'f' one whose value is
                # falsy: defined is defined
                attrs['__interface_tagged_values__'] = {
                    't': n, 'u%d' % n: n, 'invariants': [inv, shared_inv],
                    'z': None, 'f': 0 if n % 2 else ''}
            else:
                attrs['__interface_tagged_values__'] = {'u%d' % n: n}
            self.kind[n] = 'iface'
            return InterfaceClass('I%d' % canon(n), b, attrs,
                                  __module__=self.module)
        flavour = ('impl', 'prov', 'decl')[(n + N) % 3]
        self.kind[n] = flavour
        if flavour == 'impl':
            K = type('K%d' % n, (object,), {})
            self.carrier[n] = K
            s = implementedBy(K)
            s.__bases__ = b
            return s
        if flavour == 'prov':
            K = type('P%d' % n, (object,), {})
            ob = K()
            self.carrier[n] = ob
            s = ProvidesClass(K)
            ob.__provides__ = s
            s.__bases__ = b
            return s
        s = Declaration()
        s.__bases__ = b
        return s

    def observe(self):
        """C15: subscribe an observer to every interface that, when it is
        told the interface changed, checks that the accessors of THAT
        interface agree with each other at that very moment (its own
        changed() has completed by then)"""
        w = self

        class Observer:
            def __init__(self, n):
                self.n = n

            def changed(self, originally_changed):
                I = w.obj[self.n]
                # In a diamond an interface can be notified BEFORE one of
                # its bases has recomputed: its __iro__ is then built from
                # that base's old order, and is recomputed when the base
                # notifies in turn.  The statement speaks of __iro__ as the
                # bases define it; such a transitional order is not judged
                # (names(all=True) walks __bases__, the other accessors
                # follow __iro__: they differ exactly there).
                seen = set()
                todo = [I]
                while todo:
                    x = todo.pop()
                    if id(x) in seen:
                        continue
                    seen.add(id(x))
                    todo.extend(x.__bases__)
                if {id(x) for x in I.__iro__} - {id(Interface)} != \
                        seen - {id(Interface)}:
                    return
                first = None
                for J in I.__iro__:
                    if 'a' in J.names():
                        first = J
                        break
                d = I.get('a')
                got = None if d is None else d.interface
                names_has = 'a' in I.names(all=True)
                nad = dict(I.namesAndDescriptions(all=True)).get('a')
                nadi = None if nad is None else nad.interface
                if got is not first or names_has != (first is not None) \
                        or nadi is not first:
                    mism({'during': 'changed() notification of I%d' % self.n,
                          'iro': [w.ident(x) for x in I.__iro__]},
                         "accessors of I%d disagree while its dependents are "
                         "being notified" % self.n,
                         None if first is None else w.ident(first),
                         {'get': None if got is None else w.ident(got),
                          'names(all)': names_has,
                          'namesAndDescriptions(all)':
                          None if nadi is None else w.ident(nadi)})
        self.observers = []
        for n, k in self.kind.items():
            if k == 'iface':
                o = Observer(n)
                self.observers.append(o)
                self.obj[n].subscribe(o)

    def ident(self, spec):
        for k, v in self.obj.items():
            if v is spec:
                return k
        return 'foreign:%r' % (spec,)

    def apply(self, act):
        op = act['op']
        if op == 'SetBases':
            self.obj[act['n']].__bases__ = tuple(self.obj[m]
                                                 for m in act['nb'])
            return None
        if op == 'Get':
            r = self.obj[act['n']].get('a')
            return -1 if r is None else self.ident(r.interface)
        raise ValueError(op)


def valid_lin(w, bases, n, s):
    if not s or s[0] != n or s[-1] != 0 or len(set(s)) != len(s):
        return False
    reach = set()
    stack = [n]
    while stack:
        x = stack.pop()
        if x in reach:
            continue
        reach.add(x)
        stack.extend(fget(bases, x) if x else [])
    if set(s) != reach | {0}:
        return False
    pos = {x: i for i, x in enumerate(s)}
    for x in s:
        if x == 0:
            continue
        for b in fget(bases, x):
            if pos[b] <= pos[x]:
                return False
    return True


def mism(ctx, what, expected, got):
    mismatches.append({'ctx': ctx, 'what': what, 'expected': expected,
                       'got': got, 'impl': impl, 'case_idx': childlib.CASE[0]})


def check(w, bases, obs, ctx):
    global evaluations
    for n in range(1, N + 1):
        spec = w.obj[n]
        sro = [w.ident(x) for x in spec.__sro__]
        iro = [w.ident(x) for x in spec.__iro__]
        cons = fget(obs['cons'], n) and not VALID_ONLY
        exp = fget(obs['sro'], n)
        if 'C02' in PROPS:
            evaluations += 1
            if set(sro) != set(fget(obs['isoe'], n)):
                mism(ctx, 'sro-set n=%d' % n, sorted(fget(obs['isoe'], n)),
                     sro)
            isoe_c = {canon(x) for x in fget(obs['isoe'], n)}
            for m in range(0, N + 1):
                other = w.obj[m]
                e = canon(m) in isoe_c
                evaluations += 1
                g = spec.isOrExtends(other)
                if bool(g) != e:
                    mism(ctx, 'isOrExtends(%d,%d)' % (n, m), e, g)
                g = spec.extends(other)
                if bool(g) != (e and canon(m) != canon(n)):
                    mism(ctx, 'extends(%d,%d)' % (n, m),
                         e and canon(m) != canon(n), g)
                g = spec.extends(other, strict=False)
                if bool(g) != e:
                    mism(ctx, 'extends(%d,%d,strict=False)' % (n, m), e, g)
                if w.kind.get(m) == 'iface' or m == 0:
                    if w.kind[n] == 'impl':
                        g = other.implementedBy(w.carrier[n])
                        if bool(g) != e:
                            mism(ctx, 'I%d.implementedBy(K%d)' % (m, n), e, g)
                    elif w.kind[n] == 'prov':
                        g = other.providedBy(w.carrier[n])
                        if bool(g) != e:
                            mism(ctx, 'I%d.providedBy(ob%d)' % (m, n), e, g)
                        g2 = providedBy(w.carrier[n])
                        if g2 is not spec:
                            mism(ctx, 'providedBy(ob%d) identity' % n, n,
                                 repr(g2))
        if 'C03' in PROPS:
            evaluations += 1
            if cons:
                if sro != exp:
                    mism(ctx, '__sro__ n=%d (C3 exists)' % n, exp, sro)
            elif not valid_lin(w, bases, n, sro):
                mism(ctx, '__sro__ n=%d not a valid linearisation' % n,
                     'valid linearisation of bases %r' % (bases,), sro)
            eiro = [x for x in sro if x == 0 or w.kind.get(x) == 'iface']
            if iro != eiro:
                mism(ctx, '__iro__ n=%d' % n, eiro, iro)
            if VALID_ONLY:
                continue
            try:
                ro_mod.ro(spec, strict=True)
                raised = False
            except ro_mod.InconsistentResolutionOrderError:
                raised = True
            if raised != (not cons):
                mism(ctx, 'ro(strict=True) raises n=%d' % n, not cons, raised)
            ic = ro_mod.is_consistent(spec)
            if bool(ic) != cons:
                mism(ctx, 'is_consistent n=%d' % n, cons, ic)
            # non-strict public ro() must itself be a valid linearisation
            # modulo the root position, and equal C3 when it exists
            r = [w.ident(x) for x in ro_mod.ro(spec)]
            if cons:
                e2 = exp if (r and r[-1] == 0) else [x for x in exp if x != 0]
                if r != e2 and [x for x in r if x != 0] != \
                        [x for x in exp if x != 0]:
                    mism(ctx, 'ro.ro n=%d' % n, exp, r)
        if 'C15' in PROPS and w.kind[n] == 'iface':
            owner = fget(obs['owner'], n)
            invs = fget(obs['invs'], n)
            check_accessors(w, n, spec, owner, invs, sro, ctx)


def check_accessors(w, n, I, owner, invs, sro, ctx):
    global evaluations
    evaluations += 1

    def own(d):
        return -1 if d is None else w.ident(d.interface)
    try:
        g = own(I['a'])
    except KeyError:
        g = -1
    if g != owner:
        mism(ctx, "I%d['a']" % n, owner, g)
    g = own(I.get('a'))
    if g != owner:
        mism(ctx, "I%d.get('a')" % n, owner, g)
    g = own(I.queryDescriptionFor('a'))
    if g != owner:
        mism(ctx, "I%d.queryDescriptionFor('a')" % n, owner, g)
    try:
        g = own(I.getDescriptionFor('a'))
    except KeyError:
        g = -1
    if g != owner:
        mism(ctx, "I%d.getDescriptionFor('a')" % n, owner, g)
    if ('a' in I) != (owner != -1):
        mism(ctx, "'a' in I%d" % n, owner != -1, 'a' in I)
    ifaces = [x for x in sro if x != 0 and w.kind.get(x) == 'iface']
    enames = set('b%d' % m for m in ifaces) | ({'a'} if owner != -1 else set())
    g = set(iter(I))
    if g != enames:
        mism(ctx, 'iter(I%d)' % n, sorted(enames), sorted(g))
    g = set(I.names(all=True))
    if g != enames:
        mism(ctx, 'I%d.names(all=True)' % n, sorted(enames), sorted(g))
    nad = dict(I.namesAndDescriptions(all=True))
    if set(nad) != enames:
        mism(ctx, 'I%d.namesAndDescriptions(all=True) keys' % n,
             sorted(enames), sorted(nad))
    g = own(nad.get('a'))
    if g != owner:
        mism(ctx, "I%d.namesAndDescriptions(all=True)['a'].interface" % n,
             owner, g)
    for m in ifaces:
        d = nad.get('b%d' % m)
        if d is None or d.interface is not w.obj[m]:
            mism(ctx, "I%d.namesAndDescriptions(all=True)['b%d']" % (n, m),
                 m, repr(d))
        if own(I.get('b%d' % m)) != m:
            mism(ctx, "I%d.get('b%d')" % (n, m), m, own(I.get('b%d' % m)))
    # direct-only variants must be the interface's own
    own_names = {'b%d' % n} | ({'a'} if n in w.defA else set())
    if set(I.names()) != own_names:
        mism(ctx, 'I%d.names()' % n, sorted(own_names), sorted(I.names()))
    # tagged values
    g = I.queryTaggedValue('t', -1)
    if g != owner:
        mism(ctx, "I%d.queryTaggedValue('t')" % n, owner, g)
    try:
        g = I.getTaggedValue('t')
    except KeyError:
        g = -1
    if g != owner:
        mism(ctx, "I%d.getTaggedValue('t')" % n, owner, g)
    etags = set('u%d' % m for m in ifaces)
    if owner != -1:
        etags |= {'t', 'invariants', 'z', 'f'}
    for tag, expv in (('z', None), ('f', (0 if owner % 2 else '')
                                    if owner != -1 else None)):
        missing = object()
        g = I.queryTaggedValue(tag, missing)
        if owner == -1:
            if g is not missing:
                mism(ctx, "I%d.queryTaggedValue(%r) of an undefined tag" % (
                    n, tag), 'the default', repr(g))
        elif g is missing or g != expv or type(g) is not type(expv):
            mism(ctx, "I%d.queryTaggedValue(%r) (defined by I%d with a "
                 "None / falsy value)" % (n, tag, owner), repr(expv),
                 'the default' if g is missing else repr(g))
        try:
            I.getTaggedValue(tag)
            raised = False
        except KeyError:
            raised = True
        if raised != (owner == -1):
            mism(ctx, "I%d.getTaggedValue(%r) raises KeyError" % (n, tag),
                 owner == -1, raised)
    g = set(I.getTaggedValueTags())
    if g != etags:
        mism(ctx, 'I%d.getTaggedValueTags()' % n, sorted(etags), sorted(g))
    for m in ifaces:
        if I.queryTaggedValue('u%d' % m) != m:
            mism(ctx, "I%d.queryTaggedValue('u%d')" % (n, m), m,
                 I.queryTaggedValue('u%d' % m))
    # invariants
    errs = []
    try:
        I.validateInvariants(object(), errs)
        raised = False
    except Invalid:
        raised = True
    nshared = sum(1 for e in errs if e.args[0] == 'shared')
    if nshared != len(invs):
        mism(ctx, 'I%d.validateInvariants(errors): failures of the invariant '
             'callable that several interfaces share' % n, len(invs), nshared)
    got = sorted(e.args[0] for e in errs if e.args[0] != 'shared')
    if got != sorted(invs):
        mism(ctx, 'I%d.validateInvariants(errors) collected' % n,
             sorted(invs), got)
    if raised != bool(invs):
        mism(ctx, 'I%d.validateInvariants(errors) raises' % n, bool(invs),
             raised)
    try:
        I.validateInvariants(object())
        raised = False
    except Invalid:
        raised = True
    if raised != bool(invs):
        mism(ctx, 'I%d.validateInvariants() raises' % n, bool(invs), raised)
    # the same validation asked for from INSIDE an invariant of another
    # interface, for the same object (an invariant that requires the object to
    # be valid for something else): it must run and conclude the same
    inner = []
    seen_ob = []

    def outer_inv(ob):
        seen_ob.append(ob)
        try:
            I.validateInvariants(ob, inner)
        except Invalid:
            pass
    Outer = InterfaceClass(
        'Outer%d' % n, (Interface,),
        {'__interface_tagged_values__': {'invariants': [outer_inv]}},
        __module__=w.module + '.outer')
    try:
        Outer.validateInvariants(object(), [])
    except Invalid:
        pass
    got = sorted(e.args[0] for e in inner if e.args[0] != 'shared')
    nshared = sum(1 for e in inner if e.args[0] == 'shared')
    if len(seen_ob) != 1 or got != sorted(invs) or nshared != len(invs):
        mism(ctx, 'I%d.validateInvariants(ob, errors) called from inside an '
             'invariant of another interface for the same object' % n,
             [sorted(invs), len(invs)], [got, nshared])


def mro_guard(case):
    """Independent oracle for the spec's C3 operator: CPython's type.mro()
    on a mirrored class hierarchy.  Disagreement = machinery failure."""
    bases = case['bases']
    cls = {0: object}
    for n in range(1, N + 1):
        bs = tuple(cls[m] for m in fget(bases, n) if m in cls)
        cons = fget(case['cons'], n)
        if len(bs) != len(fget(bases, n)):
            continue   # an ancestor could not be created
        try:
            c = type('M%d' % n, bs or (object,), {})
        except TypeError:
            if cons:
                guard_failures.append({'bases': bases, 'n': n,
                                       'spec': 'consistent',
                                       'python': 'TypeError'})
            continue
        cls[n] = c
        if not cons:
            guard_failures.append({'bases': bases, 'n': n,
                                   'spec': 'inconsistent',
                                   'python': 'class created'})
            continue
        inv = {v: k for k, v in cls.items()}
        mro = [inv[x] for x in c.__mro__]
        if mro != fget(case['sro'], n):
            guard_failures.append({'bases': bases, 'n': n,
                                   'spec': fget(case['sro'], n),
                                   'python': mro})


def run_dag_case(case):
    global evaluations
    if 'C03' in PROPS and not VALID_ONLY:
        mro_guard(case)
    for build in ('ctor', 'assign'):
        w = World(case['defA'], case['bases'], build)
        check(w, case['bases'], case,
              {'case': case['bases'], 'defA': case['defA'],
               'build': build})
        if len(mismatches) > 50:
            break


def run_hist_case(case):
    global evaluations
    w = World(case['defA'])
    if 'C15' in PROPS and not TWIN:
        w.observe()
    steps = case['steps']
    trail = []
    for si, st in enumerate(steps):
        r = w.apply(st['act'])
        trail.append(st['act'])
        if st['act']['op'] == 'Get' and 'C15' in PROPS and \
                st.get('check', True):
            evaluations += 1
            if r != st['act']['res']:
                mism({'steps': list(trail)}, 'Get result',
                     st['act']['res'], r)
        if st.get('obs') is not None:
            check(w, st['bases'], st['obs'], {'steps': list(trail),
                                              'defA': case['defA']})


for ci, case in enumerate(job['cases']):
    childlib.CASE[0] = ci
    try:
        if job['mode'] == 'dag':
            run_dag_case(case)
        else:
            run_hist_case(case)
    except Exception as e:      # raised by the code under test
        import traceback
        tb = traceback.format_exc().strip().split('\n')
        mism({'case': case.get('bases') or
              [s['act'] for s in case.get('steps', [])],
              'defA': case.get('defA')},
             'unexpected exception', 'no exception',
             '%s: %s | %s' % (type(e).__name__, e, ' / '.join(tb[-6:])))
    if len(mismatches) > 50:
        break

childlib.done({'evaluations': evaluations, 'mismatches': mismatches[:60],
               'guard_failures': guard_failures[:20]})
