"""Child: replays Registry.tla behaviours / states into real adapter
registries and compares every answer with the admissible sets TLC computed.

job = {"flavour": "push"|"verify", "sbases": {...}, "pbases": [[..],..],
       "rbases": [[..],..], "leaf_impl": bool, "mode": "paths"|"states",
       "props": [...], "cases": [...], "seed": int}
"""
import childlib
impl = childlib.boot()

import gc
import random

from zope.interface import Interface, implementedBy, providedBy
from zope.interface.adapter import AdapterRegistry, VerifyingAdapterRegistry
from zope.interface.interface import InterfaceClass

job = childlib.job()
FLAV = job['flavour']
rnd = random.Random(job.get('seed', 0))
evaluations = 0
mismatches = []
NONE = -1
VALUE_ERR = -3
BADNAME = '<not a string>'
BAD_NAMES = [None, b'', 0, (), b'n', 1.5, False]
DEFAULT = object()
DEFAULTS = [DEFAULT, object(), object()]


def fget(f, k):
    if isinstance(f, dict):
        return f[str(k)]
    return f[k - 1]


def mism(ctx, what, expected, got):
    if len(mismatches) < 80:
        mismatches.append({'ctx': ctx, 'what': what, 'expected': expected,
                           'got': got, 'impl': impl, 'case_idx': childlib.CASE[0]})


class Result:
    def __init__(self, v, args):
        self.v = v
        self.args = args

    def __bool__(self):
        # adapters may be falsy objects (empty containers): only None means
        # "no adapter"
        return self.v.vid % 2 == 0


class V:
    """A registered value: callable factory with controlled equality."""

    def __init__(self, vid, eqclass):
        self.vid = vid
        self.eq = eqclass
        self.ret_none = (vid % 5 == 0)
        self.calls = []

    def __call__(self, *args):
        self.calls.append(args)
        if self.ret_none:
            return None
        return Result(self, args)

    def __bool__(self):
        # some registered values are falsy objects (0, '', empty containers
        # are legitimate components): nothing may depend on truthiness
        return self.vid % 3 != 0

    def __eq__(self, other):
        return isinstance(other, V) and other.eq == self.eq

    def __ne__(self, other):
        return not self.__eq__(other)

    def __hash__(self):
        return hash(self.eq)

    def __repr__(self):
        return 'V%d' % self.vid


class Carrier:
    pass


# The documented persistence hooks of BaseAdapterRegistry: alternative
# container types (stand-ins for PersistentList / PersistentMapping) with a
# mutable leaf sequence and the two leaf methods overridden as the docstrings
# prescribe.
class PList(list):
    pass


class PMap(dict):
    pass


class CustomContainers:
    _sequenceType = PList
    _leafSequenceType = PList
    _mappingType = PMap
    _providedType = PMap

    def _addValueToLeaf(self, existing_leaf_sequence, new_item):
        if not existing_leaf_sequence:
            existing_leaf_sequence = self._leafSequenceType()
        existing_leaf_sequence.append(new_item)
        return existing_leaf_sequence

    def _removeValueFromLeaf(self, existing_leaf_sequence, to_remove):
        without = [x for x in existing_leaf_sequence if x != to_remove]
        existing_leaf_sequence[:] = without
        return existing_leaf_sequence


class CustomAdapterRegistry(CustomContainers, AdapterRegistry):
    pass


class CustomVerifyingAdapterRegistry(CustomContainers,
                                     VerifyingAdapterRegistry):
    pass


def registry_class():
    if job.get('custom_containers'):
        return CustomAdapterRegistry if FLAV == 'push' else \
            CustomVerifyingAdapterRegistry
    return AdapterRegistry if FLAV == 'push' else VerifyingAdapterRegistry


class World:
    serial = 0

    def __init__(self):
        World.serial += 1
        mod = 'regworld%d' % World.serial
        sb = job['sbases']
        ns = len(sb) - 1
        self.spec = {0: Interface}
        self.inst = {}
        self.subinst = {}
        kids = set()
        for n in range(1, ns + 1):
            kids.update(fget_s(sb, n))
        for n in range(1, ns + 1):
            bases = tuple(self.spec[m] for m in fget_s(sb, n))
            if n == job.get('empty_spec'):
                # the shared empty declaration (a process-wide singleton)
                from zope.interface.declarations import _empty
                self.spec[n] = _empty
                continue
            if job.get('all_impl') or (
                    job.get('leaf_impl') and n == ns and n not in kids):
                K = type('K%d' % n, (object,), {})
                s = implementedBy(K)
                s.__bases__ = bases
                self.spec[n] = s
                self.inst[n] = K()
                # for super() proxies: an instance of a subclass; what the
                # proxy super(Sub, x) provides is what K implements
                Sub = type('Sub%d' % n, (K,), {})
                self.subinst[n] = (Sub, Sub())
            else:
                self.spec[n] = InterfaceClass('R%d' % n, bases,
                                              __module__=mod)
        self.prov = {0: None}
        for i, b in enumerate(job['pbases']):
            self.prov[i + 1] = InterfaceClass(
                'P%d' % (i + 1), tuple(self.prov[m] for m in b),
                __module__=mod)
        cls = registry_class()
        self.reg = {}
        self.comp = None
        if job.get('components'):
            # the registries are the .adapters of Components objects and
            # re-basing goes through Components.__bases__, which maps the
            # component bases onto both underlying registries
            from zope.interface.registry import Components
            # 'cbases': the Components layer of MC_RegistryComp (registry
            # identities beyond the components are handed out when a
            # constructor is re-run); otherwise one component per registry
            cb = job.get('cbases') or job['rbases']
            self.attr = job.get('comp_attr', 'adapters')
            self.comp = {i + 1: Components('c%d' % (i + 1))
                         for i in range(len(cb))}
            for i, b in enumerate(cb):
                if b:
                    self.comp[i + 1].__bases__ = tuple(self.comp[m]
                                                       for m in b)
            self.reg = {g: getattr(c, self.attr)
                        for g, c in self.comp.items()}
            self.owner = {g: g for g in self.comp}
        else:
            for i, b in enumerate(job['rbases']):
                self.reg[i + 1] = cls()
            for i, b in enumerate(job['rbases']):
                if b:
                    self.reg[i + 1].__bases__ = tuple(self.reg[m] for m in b)
        self.vals = {}
        self.objs = {}
        self.dflt = DEFAULT
        self.eqclass = job.get('eqclass')

    def val(self, vid):
        v = self.vals.get(vid)
        if v is None:
            eq = vid
            if self.eqclass and str(vid) in self.eqclass:
                eq = self.eqclass[str(vid)]
            v = self.vals[vid] = V(vid, eq)
        return v

    def req(self, ids, none_for_root=False):
        out = []
        for i in ids:
            if i == 0 and none_for_root:
                out.append(None)
            else:
                out.append(self.spec[i])
        return out

    def ob(self, sid):
        """an object whose providedBy() is exactly spec sid"""
        if sid in self.inst:
            return self.inst[sid]
        o = self.objs.get(sid)
        if o is None:
            o = Carrier()
            o.__providedBy__ = self.spec[sid]
            self.objs[sid] = o
        return o

    # ---- mutations
    def apply(self, act, ctx):
        op = act['op']
        if op == 'register':
            self.reg[act['g']].register(
                self.req(act['req'], rnd.random() < 0.5),
                self.prov[act['prov']], act['name'], self.val(act['val']))
        elif op == 'unregister':
            r = self.reg[act['g']]
            req = self.req(act['req'], rnd.random() < 0.5)
            if act['val'] == NONE:
                if rnd.random() < 0.5:
                    r.unregister(req, self.prov[act['prov']], act['name'])
                else:   # registering None unregisters
                    r.register(req, self.prov[act['prov']], act['name'],
                               None)
            else:
                r.unregister(req, self.prov[act['prov']], act['name'],
                             self.val(act['val']))
        elif op == 'subscribe':
            self.reg[act['g']].subscribe(
                self.req(act['req'], rnd.random() < 0.5),
                self.prov[act['prov']], self.val(act['val']))
        elif op == 'unsubscribe':
            req = self.req(act['req'], rnd.random() < 0.5)
            if act['val'] == NONE:
                self.reg[act['g']].unsubscribe(req, self.prov[act['prov']])
            else:
                self.reg[act['g']].unsubscribe(req, self.prov[act['prov']],
                                               self.val(act['val']))
        elif op == 'rebuild':
            self.reg[act['g']].rebuild()
        elif op == 'relookup':
            # what __setstate__ of a persistent registry does after loading
            self.reg[act['g']]._createLookup()
        elif op == 'setRegBases':
            if self.comp is not None:
                c = self.comp[act['g']]
                c.__bases__ = tuple(self.comp[m] for m in act['nb'])
                if c.adapters.__bases__ != tuple(
                        self.comp[m].adapters for m in act['nb']) or \
                        c.utilities.__bases__ != tuple(
                            self.comp[m].utilities for m in act['nb']):
                    mism(ctx, 'Components.__bases__ mapped onto adapters / '
                         'utilities', act['nb'], 'different registries')
            else:
                self.reg[act['g']].__bases__ = tuple(self.reg[m]
                                                     for m in act['nb'])
        elif op == 'compSetBases':
            self.comp[act['c']].__bases__ = tuple(self.comp[m]
                                                  for m in act['nb'])
        elif op == 'compReinit':
            c = self.comp[act['c']]
            # the idiom for resetting a registry: run the constructor again
            c.__init__('c%d' % act['c'],
                       tuple(self.comp[m] for m in act['nb']))
            self.reg[act['g']] = getattr(c, self.attr)
            self.owner[act['g']] = act['c']
        elif op == 'setSpecBases':
            self.spec[act['s']].__bases__ = tuple(self.spec[m]
                                                  for m in act['nb'])
        elif op == 'lookup':
            self.q_lookup(act['g'], act['req'], act['prov'], act['name'],
                          act['adm'], ctx, primary=True,
                          variants=[act['via']] if act.get('via') else None)
        elif op == 'lookupAll':
            self.q_lookupall(act['g'], act['req'], act['prov'], act['adm'],
                             ctx)
        elif op == 'subscriptions':
            self.q_subs(act['g'], act['req'], act['prov'], act['adm'], ctx)
        else:
            raise ValueError(op)

    # ---- queries
    def vid(self, x):
        if isinstance(x, V):
            # (also when the last calling lookup passed this very object as
            # its default)
            return x.vid
        if x is self.dflt:
            return NONE
        if any(x is d for d in DEFAULTS):
            return 'a default passed to an EARLIER call'
        if isinstance(x, V):
            return x.vid
        return 'foreign:%r' % (x,)

    def comp_of(self, g):
        """the component that currently owns registry g as .adapters"""
        if self.comp is None or self.attr != 'adapters':
            return None
        c = self.comp.get(self.owner.get(g))
        if c is not None and c.adapters is self.reg[g]:
            return c
        return None

    def lookup_variants(self, req, g=None):
        vs = ['lookup', 'lookup_list', 'lookup_lazy', 'multi']
        if len(req) == 1:
            vs += ['lookup1', 'hook', 'queryAdapter']
        if g is not None and self.comp_of(g) is not None:
            # the Components-level entry points
            vs += ['comp_multi']
            if len(req) == 1:
                vs += ['comp_queryAdapter']
        if req and all(s in self.subinst for s in req):
            # the looked-up objects are super() proxies: the factory must be
            # called with the underlying objects
            vs += ['multi_super']
            if len(req) == 1:
                vs += ['hook_super', 'queryAdapter_super']
        return vs

    def one_lookup(self, via, g, req, p, name, adm=()):
        """returns (value id found, extra mismatch text or None)"""
        if name == BADNAME:
            try:
                self.one_lookup(via, g, req, p, rnd.choice(BAD_NAMES))
            except ValueError:
                return VALUE_ERR, None
            return 'no ValueError', None
        r = self.reg[g]
        P = self.prov[p]
        specs = self.req(req)
        # a different default object on every call (defaults are returned by
        # identity and never cached), sometimes none at all
        k = rnd.randrange(len(DEFAULTS) + 1)
        calling = via not in ('lookup', 'lookup_list', 'lookup_lazy',
                              'lookup1')
        hits = [a for a in adm if a != NONE and not self.val(a).ret_none]
        if calling and hits and rnd.random() < 0.2:
            # the caller's default happens to be the very object that is
            # registered: a hit must still CALL it
            self.dflt = self.val(rnd.choice(hits))
            dargs = (self.dflt,)
        elif k == len(DEFAULTS):
            self.dflt = None
            dargs = ()
        else:
            self.dflt = DEFAULTS[k]
            dargs = (self.dflt,)
        if via == 'lookup':
            return self.vid(r.lookup(tuple(specs), P, name, *dargs)), None
        if via == 'lookup_list':
            return self.vid(r.lookup(list(specs), P, name, *dargs)), None
        if via == 'lookup_lazy':
            return self.vid(r.lookup(LazySeq(specs), P, name, *dargs)), None
        if via == 'lookup1':
            return self.vid(r.lookup1(specs[0], P, name, *dargs)), None
        objs = [self.ob(s) for s in req]
        if via.endswith('_super'):
            via = via[:-6]
            objs = [self.subinst[s][1] for s in req]
            args = [super(self.subinst[s][0], self.subinst[s][1])
                    for s in req]
        else:
            args = objs
        if via == 'comp_queryAdapter':
            res = self.comp_of(g).queryAdapter(args[0], P, name, *dargs)
        elif via == 'comp_multi':
            res = self.comp_of(g).queryMultiAdapter(args, P, name, *dargs)
        elif via in ('hook', 'queryAdapter'):
            if via == 'hook':
                res = r.adapter_hook(P, args[0], name, *dargs)
            else:
                res = r.queryAdapter(args[0], P, name, *dargs)
        else:
            res = r.queryMultiAdapter(args, P, name, *dargs)
        if res is self.dflt:
            return ('default', None)
        if isinstance(res, Result):
            bad = None
            if len(res.args) != len(objs) or any(
                    a is not b for a, b in zip(res.args, objs)):
                bad = 'factory called with wrong objects'
            return res.v.vid, bad
        return 'foreign:%r' % (res,), None

    def q_lookup(self, g, req, p, name, adm, ctx, primary=False,
                 variants=None):
        global evaluations
        vs = variants or self.lookup_variants(req, g)
        if primary and not variants:
            vs = [rnd.choice(vs)]
        for via in vs:
            evaluations += 1
            got, bad = self.one_lookup(via, g, req, p, name, adm)
            if got == 'default':
                # admissible: no adapter, or an adapter whose factory
                # returns None
                ok = NONE in adm or any(a != NONE and self.val(a).ret_none
                                        for a in adm)
            else:
                ok = got in adm
                if ok and got != NONE and via in (
                        'hook', 'queryAdapter', 'multi', 'hook_super',
                        'comp_multi', 'comp_queryAdapter',
                        'queryAdapter_super', 'multi_super') \
                        and self.val(got).ret_none:
                    ok = False
            if not ok or bad:
                mism(ctx, '%s(g=%d, req=%r, prov=%d, name=%r)%s' % (
                    via, g, req, p, name, ' ' + bad if bad else ''),
                    adm, got)

    def q_lookupall(self, g, req, p, adm, ctx):
        global evaluations
        evaluations += 1
        r = self.reg[g]
        res = r.lookupAll(tuple(self.req(req)), self.prov[p])
        items = list(res)
        d = dict(items)
        if isinstance(adm, list):    # TLC prints an empty function as []
            adm = {}
        if len(items) != len(d) or set(d) != set(adm):
            mism(ctx, 'lookupAll(g=%d, req=%r, prov=%d) names' % (g, req, p),
                 sorted(adm), sorted(d))
        else:
            for nm, v in d.items():
                if self.vid(v) not in adm[nm]:
                    mism(ctx, 'lookupAll(g=%d, req=%r, prov=%d)[%r]' % (
                        g, req, p, nm), adm[nm], self.vid(v))
        names = list(r.names(tuple(self.req(req)), self.prov[p]))
        if sorted(names) != sorted(adm):
            mism(ctx, 'names(g=%d, req=%r, prov=%d)' % (g, req, p),
                 sorted(adm), sorted(names))

    def q_subs(self, g, req, p, adm, ctx):
        global evaluations
        evaluations += 1
        r = self.reg[g]
        P = self.prov[p]
        res = [self.vid(x) for x in r.subscriptions(tuple(self.req(req)), P)]
        if res not in adm:
            mism(ctx, 'subscriptions(g=%d, req=%r, prov=%d)' % (g, req, p),
                 adm, res)
            return
        objs = [self.ob(s) for s in req]
        for v in self.vals.values():
            del v.calls[:]
        out = r.subscribers(objs, P)
        if p == 0:
            if len(out) != 0:
                mism(ctx, 'subscribers(handlers) returns nothing', [],
                     repr(out))
            called = sorted(v.vid for v in self.vals.values()
                            for c in v.calls)
            if called != sorted(res):
                mism(ctx, 'subscribers(g=%d, req=%r, None) calls' % (g, req),
                     sorted(res), called)
        else:
            exp = [x for x in res if not self.val(x).ret_none]
            got = [(o.v.vid if isinstance(o, Result) else repr(o))
                   for o in out]
            if got != exp:
                mism(ctx, 'subscribers(g=%d, req=%r, prov=%d)' % (g, req, p),
                     exp, got)
            for o in out:
                if isinstance(o, Result) and (
                        len(o.args) != len(objs) or any(
                            a is not b for a, b in zip(o.args, objs))):
                    mism(ctx, 'subscriber called with wrong objects', None,
                         None)

    # ---- full probe of a state against obs
    def probe(self, obs, ctx, bookkeeping=True, allvariants=True):
        for g in sorted(self.reg):
            o = fget(obs, g)
            # non-string names last: on caches warmed by the probes before
            for q in sorted(o['look'], key=lambda q: q['name'] == BADNAME):
                self.q_lookup(g, q['req'], q['prov'], q['name'], q['adm'],
                              ctx, variants=None if allvariants else
                              ['lookup'])
            byk = {}
            for q in o['look']:
                byk.setdefault((tuple(q['req']), q['prov']), {})[
                    q['name']] = q['adm']
            for (req, p), names in byk.items():
                adm = {nm: a for nm, a in names.items()
                       if NONE not in a and nm != BADNAME}
                # names with NONE admissible only: absent from lookupAll
                self.q_lookupall(g, list(req), p, adm, ctx)
            for q in o['subs']:
                self.q_subs(g, q['req'], q['prov'], q['adm'], ctx)
            if bookkeeping:
                self.books(g, o, ctx)

    def books(self, g, o, ctx):
        global evaluations
        evaluations += 1
        r = self.reg[g]
        exp = sorted((tuple(e['req']), e['prov'], e['name'], e['val'])
                     for e in o['regs'])
        got = []
        for (req, prov, name, val) in r.allRegistrations():
            got.append((tuple(self.sid(x) for x in req), self.pid(prov),
                        name, self.vid(val)))
        if sorted(got) != exp:
            mism(ctx, 'allRegistrations(g=%d)' % g, exp, sorted(got))
        for e in o['regs']:
            v = r.registered(self.req(e['req']), self.prov[e['prov']],
                             e['name'])
            if v is not self.val(e['val']):
                mism(ctx, 'registered(g=%d, %r)' % (g, e), e['val'],
                     self.vid(v) if v is not None else None)
        exps = sorted((tuple(e['req']), e['prov'], v)
                      for e in o['sreg'] for v in e['vals'])
        gots = sorted((tuple(self.sid(x) for x in req), self.pid(prov),
                       self.vid(val))
                      for (req, prov, val) in r.allSubscriptions())
        if gots != exps:
            mism(ctx, 'allSubscriptions(g=%d)' % g, exps, gots)
        for e in o['sreg']:
            for v in set(e['vals']):
                s = r.subscribed(self.req(e['req']), self.prov[e['prov']],
                                 self.val(v))
                if s is None or s != self.val(v):
                    mism(ctx, 'subscribed(g=%d, %r, %d)' % (g, e, v), v,
                         None if s is None else self.vid(s))
                # subscribers are found by EQUALITY: an equal object that
                # was never subscribed itself finds the stored one
                twin = V(77000 + v, self.val(v).eq)
                s = r.subscribed(self.req(e['req']), self.prov[e['prov']],
                                 twin)
                if s is None or s != twin:
                    mism(ctx, 'subscribed(g=%d, %r, <equal to %d>)' % (
                        g, e, v), v, None if s is None else self.vid(s))

    def absent_probe(self, keys, obs, ctx):
        """registered()/subscribed() for keys that are NOT live"""
        for g in sorted(self.reg):
            o = fget(obs, g)
            live = {(tuple(e['req']), e['prov'], e['name'])
                    for e in o['regs']}
            for (req, p, nm) in keys:
                if (tuple(req), p, nm) in live or p == 0:
                    continue
                v = self.reg[g].registered(self.req(req), self.prov[p], nm)
                if v is not None:
                    mism(ctx, 'registered(g=%d) of dead key %r' % (
                        g, (req, p, nm)), None, self.vid(v))

    def sid(self, x):
        for k, v in self.spec.items():
            if v is x:
                return k
        return 'foreign'

    def pid(self, x):
        for k, v in self.prov.items():
            if v is x:
                return k
        return 'foreign'

    def copy_equiv(self, obs, ctx):
        """C09: allRegistrations/allSubscriptions replayed into an empty
        registry, and rebuild(), answer identically (admissible sets are a
        function of the primary state, which must be unchanged)."""
        cls = registry_class()
        old = dict(self.reg)
        fresh = {}
        for g in sorted(old):
            fresh[g] = cls()
        for g in sorted(old):
            fresh[g].__bases__ = tuple(fresh[old_index(old, b)]
                                       for b in old[g].__bases__)
            for args in old[g].allRegistrations():
                fresh[g].register(*args)
            for args in old[g].allSubscriptions():
                fresh[g].subscribe(*args)
        self.reg = fresh
        self.probe(obs, dict(ctx, phase='copied into fresh registries'))
        self.reg = old
        for g in sorted(old):
            old[g].rebuild()
        self.probe(obs, dict(ctx, phase='after rebuild()'))


def old_index(old, reg):
    for k, v in old.items():
        if v is reg:
            return k
    raise KeyError


def fget_s(f, k):
    if isinstance(f, dict):
        return f[str(k)]
    return f[k]


class LazySeq:
    """a `required` argument that is not a tuple/list"""

    def __init__(self, items):
        self.items = items

    def __iter__(self):
        return iter(list(self.items))

    def __len__(self):
        return len(self.items)


def run_case(case):
    w = World()
    if job['mode'] == 'paths':
        trail = []
        steps = case['steps']
        for st in steps:
            trail.append({k: v for k, v in st['act'].items() if k != 'adm'})
            ctx = {'steps': list(trail)}
            if st.get('dense'):
                w.apply({k: v for k, v in st['act'].items()}, ctx)
                w.probe(st['dense'], ctx, bookkeeping=False,
                        allvariants=False)
            else:
                w.apply(st['act'], ctx)
            if st.get('obs') is not None:
                w.probe(st['obs'], ctx)
                if case.get('copy'):
                    w.copy_equiv(st['obs'], ctx)
    else:
        # a state: build it in a random order with removal noise
        ents = [('r', g + 1, e) for g, es in enumerate(case['regs'])
                for e in es]
        ents += [('s', g + 1, e, v) for g, es in enumerate(case['sreg'])
                 for e in es for v in e['vals']]
        # subscription order within one key must be kept
        rnd.shuffle(ents)
        seen_sub = {}
        ordered = []
        for it in ents:
            if it[0] == 's':
                k = (it[1], tuple(it[2]['req']), it[2]['prov'])
                i = seen_sub.get(k, 0)
                seen_sub[k] = i + 1
                ordered.append(('s', it[1], it[2], it[2]['vals'][i]))
            else:
                ordered.append(it)
        ctx = {'state': {'regs': case['regs'], 'sreg': case['sreg']},
               'build_order': [(x[0], x[1], x[2]['req'], x[2]['prov'])
                               for x in ordered]}
        noise = case.get('noise') or []
        for it in ordered:
            if noise and rnd.random() < 0.4:
                k = rnd.choice(noise)
                r = w.reg[it[1]]
                nv = w.val(9000 + rnd.randrange(5))
                if not any(tuple(e['req']) == tuple(k[0]) and
                           e['prov'] == k[1] and e['name'] == k[2]
                           for e in fget(case['regs'], it[1])) and k[1] != 0:
                    r.register(w.req(k[0]), w.prov[k[1]], k[2], nv)
                    if rnd.random() < 0.5:
                        r.lookup(w.req(k[0]), w.prov[k[1]], k[2])
                    r.unregister(w.req(k[0]), w.prov[k[1]], k[2])
            if it[0] == 'r':
                e = it[2]
                if noise and rnd.random() < 0.3:
                    # the final value overwrites another one
                    w.reg[it[1]].register(
                        w.req(e['req'], rnd.random() < 0.5),
                        w.prov[e['prov']], e['name'],
                        w.val(8000 + rnd.randrange(5)))
                w.reg[it[1]].register(w.req(e['req'], rnd.random() < 0.5),
                                      w.prov[e['prov']], e['name'],
                                      w.val(e['val']))
            else:
                e = it[2]
                w.reg[it[1]].subscribe(w.req(e['req'], rnd.random() < 0.5),
                                       w.prov[e['prov']], w.val(it[3]))
        w.probe(case['obs'], ctx)
        if case.get('absent'):
            w.absent_probe(case['absent'], case['obs'], ctx)
        if case.get('copy'):
            w.copy_equiv(case['obs'], ctx)


CUR = {'ctx': None}
for childlib.CASE[0], case in enumerate(job['cases']):
    try:
        run_case(case)
    except Exception as e:      # raised by the code under test
        import traceback
        tb = traceback.format_exc().strip().split('\n')
        mism({'case': case.get('steps') and [
            {k: v for k, v in s['act'].items() if k != 'adm'}
            for s in case['steps']] or {'regs': case.get('regs'),
                                        'sreg': case.get('sreg')}},
             'unexpected exception', 'no exception',
             '%s: %s | %s' % (type(e).__name__, e, ' / '.join(tb[-6:])))
    if len(mismatches) >= 60:
        break

childlib.done({'evaluations': evaluations, 'mismatches': mismatches})
