"""Child: runs seeded random programs over the specification graph of the real
package -- interfaces, plain declarations and class specifications, re-based
at top level AND from inside change notifications (re-entrant observers) --
and records one ndjson-able trace per program for spec/TraceSpecGraph.tla.

job = {"traces": n, "events": m, "seed": s, "nodes": N}
result = {"traces": [{"nodes": [...], "ev": [...]}, ...]}

Events (see TraceSpecGraph.tla): new / setBases / setTag are logged at the
moment the call STARTS (an assignment made from inside a notification is
logged while the outer call is still running, after the outer event);
query events are made only at quiescent points and carry what the real
objects report.  The driver keeps a mirror of the bases only to generate
acyclic assignments; no expectation is computed here.
"""
import childlib
impl = childlib.boot()

import random

from zope.interface import Interface, implementedBy, ro
from zope.interface.declarations import Declaration
from zope.interface.interface import Attribute, InterfaceClass

job = childlib.job()
NAMES = ['a', 'b', 'c']
TAGS = ['t', 'u']


class Observer:
    """a dependent that re-bases (or tags) from inside a notification"""

    def __init__(self, prog):
        self.prog = prog
        self.budget = 0

    def changed(self, originally_changed):
        if self.budget <= 0 or self.prog.depth > 2:
            return
        self.budget -= 1
        self.prog.nested()


class Program:
    serial = 0

    def __init__(self, rnd, nmax, nev, style='dag'):
        # style 'chain': a deep chain of interfaces is built first and tags
        # are (re)assigned often -- answers remembered far below their source
        self.style = style
        Program.serial += 1
        self.mod = 'sgtrace%d' % Program.serial
        self.rnd = rnd
        self.nmax = nmax
        self.nev = nev
        self.ev = []
        self.obj = {0: Interface}
        self.kind = {0: 'iface'}
        self.mirror = {0: []}
        self.keep = []
        self.depth = 0
        self.tagserial = 0
        self.observers = []

    # ---- helpers
    def nid(self, x):
        for k, v in self.obj.items():
            if v is x:
                return k
        return -9

    def desc(self, n):
        """nodes that reach n through the mirror (n included)"""
        out = {n}
        grew = True
        while grew:
            grew = False
            for k, b in self.mirror.items():
                if k not in out and any(x in out for x in b):
                    out.add(k)
                    grew = True
        return out

    def pick_bases(self, n, pool=None):
        bad = self.desc(n) if n in self.mirror else {n}
        if pool is None and self.kind.get(n) == 'iface' and \
                self.rnd.random() < 0.75:
            # interfaces mostly keep interface bases (the setter accepts
            # any specification)
            pool = [k for k in self.mirror if self.kind[k] == 'iface']
        cand = [k for k in (pool if pool is not None else self.mirror)
                if k != 0 and k not in bad]
        self.rnd.shuffle(cand)
        k = self.rnd.choice([0, 1, 1, 2, 2, 3])
        return cand[:k]

    # ---- operations
    def new(self):
        n = len(self.obj)
        kind = self.rnd.choice(['iface', 'iface', 'iface', 'decl', 'impl'])
        chain = self.style == 'chain' and n <= 5
        if chain:
            kind = 'iface'
        names, tags = [], []
        if kind == 'iface':
            pool = [k for k in self.mirror if self.kind[k] == 'iface']
            b = self.pick_bases(n, pool)
            if (chain or self.rnd.random() < 0.5) and len(pool) > 1:
                # grow chains: deep hierarchies are where an answer
                # remembered far below its source can go stale
                b = [max(pool)]
            names = [x for x in NAMES if self.rnd.random() < 0.4]
            attrs = {x: Attribute('%s of %d' % (x, n)) for x in names}
            o = InterfaceClass('N%d' % n, tuple(self.obj[k] for k in b),
                               attrs, __module__=self.mod)
            for t in TAGS:
                if self.rnd.random() < 0.3:
                    self.tagserial += 1
                    o.setTaggedValue(t, self.tagserial)
                    tags.append([t, self.tagserial])
        else:
            # (a declaration given as a constructor argument is flattened
            # into its interfaces: the bases are assigned instead)
            if kind == 'decl':
                o = Declaration()
            else:
                K = type('K%d' % n, (object,), {'__module__': self.mod})
                self.keep.append(K)
                o = implementedBy(K)
            b = self.pick_bases(n)
            self.obj[n] = o
            self.kind[n] = kind
            self.mirror[n] = []
            # (the initial base of a class specification, implementedBy(object),
            # is replaced at once)
            self.ev.append({'op': 'new', 'n': n, 'kind': kind, 'bases': [],
                            'names': [], 'tags': []})
            self.set_bases(n, b)
            return
        self.obj[n] = o
        self.kind[n] = kind
        self.mirror[n] = list(b)
        self.ev.append({'op': 'new', 'n': n, 'kind': kind,
                        'bases': [self.nid(x) for x in o.__bases__],
                        'names': names, 'tags': tags})

    def set_bases(self, n, b):
        self.mirror[n] = list(b)
        self.ev.append({'op': 'setBases', 'n': n, 'bases': list(b),
                        'depth': self.depth})
        self.depth += 1
        try:
            self.obj[n].__bases__ = tuple(self.obj[k] for k in b)
        finally:
            self.depth -= 1

    def set_tag(self, n):
        t = self.rnd.choice(TAGS)
        self.tagserial += 1
        self.ev.append({'op': 'setTag', 'n': n, 'tag': t,
                        'val': self.tagserial})
        self.obj[n].setTaggedValue(t, self.tagserial)

    def nested(self):
        """called by an observer from inside a notification"""
        cand = [k for k in self.mirror if k != 0]
        if not cand:
            return
        n = self.rnd.choice(cand)
        if self.rnd.random() < 0.2 and self.kind[n] == 'iface':
            self.set_tag(n)
        else:
            self.set_bases(n, self.pick_bases(n))

    def observe(self):
        cand = [k for k in self.mirror if k != 0]
        if not cand:
            return
        ob = Observer(self)
        self.observers.append(ob)
        for n in self.rnd.sample(cand, min(len(cand), self.rnd.choice(
                [1, 1, 2]))):
            self.obj[n].subscribe(ob)

    def query(self, n):
        o = self.obj[n]
        ids = sorted(self.obj)
        e = {'op': 'query', 'n': n,
             'sro': [self.nid(x) for x in o.__sro__],
             'iro': [self.nid(x) for x in o.__iro__],
             'ext': [k for k in ids if o.isOrExtends(self.obj[k])],
             'sext': [k for k in ids if o.extends(self.obj[k])],
             'next': [k for k in ids if o.extends(self.obj[k], strict=False)],
             'get': [], 'nad': [], 'tag': []}
        try:
            ro.ro(o, strict=True)
            strict_ok = True
        except ro.InconsistentResolutionOrderError:
            strict_ok = False
        e['consistent'] = bool(ro.is_consistent(o))
        e['strict'] = strict_ok
        # names(all=True) asks every base for its names: only defined when
        # the whole ancestry consists of interfaces
        pure = all(self.kind.get(self.nid(x)) == 'iface' for x in o.__sro__)
        if self.kind[n] == 'iface' and pure:
            nad = dict(o.namesAndDescriptions(all=True))
            allnames = sorted(o.names(all=True))
            itered = sorted(iter(o))
            for x in NAMES:
                d = o.get(x)
                own = self.owner_of(d)
                agree = (
                    (d is None) == (x not in o) and
                    o.queryDescriptionFor(x) is d and
                    (x in allnames) == (d is not None) and
                    (x in itered) == (d is not None))
                if d is not None:
                    try:
                        agree = agree and o[x] is d
                    except KeyError:
                        agree = False
                e['get'].append([x, own if agree else -7])
                e['nad'].append([x, self.owner_of(nad.get(x))])
            have = sorted(o.getTaggedValueTags())
            for t in TAGS:
                v = o.queryTaggedValue(t)
                v = -1 if v is None else v
                if (t in have) != (v != -1):
                    v = -7
                e['tag'].append([t, v])
        self.ev.append(e)

    def owner_of(self, d):
        if d is None:
            return -1
        return self.nid(d.interface)

    def run(self):
        try:
            while len(self.ev) < self.nev:
                r = self.rnd.random()
                live = [k for k in self.mirror if k != 0]
                if len(self.obj) <= (6 if self.style == 'chain' else 3) or (
                        r < 0.18 and len(self.obj) <= self.nmax):
                    self.new()
                elif r < 0.25 and len(self.observers) < 3:
                    self.observe()
                    continue
                elif r < (0.6 if self.style == 'chain' else 0.37):
                    ifs = [k for k in live if self.kind[k] == 'iface']
                    if ifs:
                        # everybody is asked before and after (an answer
                        # remembered below must not survive the assignment)
                        for n in ifs:
                            self.query(n)
                        self.set_tag(self.rnd.choice(ifs))
                        for n in ifs:
                            self.query(n)
                        continue
                else:
                    for ob in self.observers:
                        ob.budget = self.rnd.choice([0, 0, 1, 1, 2])
                    n = self.rnd.choice(live)
                    self.set_bases(n, self.pick_bases(n))
                    for ob in self.observers:
                        ob.budget = 0
                for n in self.rnd.sample(live, min(len(live), 3)):
                    self.query(n)
        except Exception as e:      # raised by the code under test
            import traceback
            tb = traceback.format_exc().strip().split('\n')
            self.ev.append({'op': 'exception', 'what': '%s: %s | %s' % (
                type(e).__name__, e, ' / '.join(tb[-4:]))[:600]})
        return {'nodes': sorted(k for k in range(1, self.nmax + 3)),
                'ev': self.ev}


rnd = random.Random(job['seed'])
traces = []
for i in range(job['traces']):
    traces.append(Program(random.Random(rnd.random()), job.get('nodes', 9),
                          job['events'],
                          'chain' if i % 3 == 2 else 'dag').run())
childlib.done({'traces': traces})
