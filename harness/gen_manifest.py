"""Regenerates /verif/MANIFEST.json from the table below."""
import json
import os

VERIF = os.path.dirname(os.path.dirname(os.path.abspath(__file__)))
PENDING = ('check not built yet (framework under construction); will be '
           'claimed once its TLA+ spec and conformance harness exist')

REPLAY = ('; TLC-generated states/behaviours replayed into the real code '
          '(spec->code conformance, both implementations)')

CHECKS = {
    'C01': dict(
        spec='Declarations.tla (MC_Declarations)',
        text='TLC explores all interleavings of the declaration API '
             '(classImplements/Only/First, directlyProvides, alsoProvides, '
             'noLongerProvides, class-level provides, first queries) on four '
             'class shapes and checks ProvidedWithinInterval (mechanism state '
             'within the ghost [must, may] interval of the declaration '
             'history), NoLeak and the action property Unrelated; one '
             'shortest behaviour per reachable state plus random long '
             'behaviours are replayed into real classes/instances and every '
             'entry point (providedBy, implementedBy, I.providedBy, '
             'I.implementedBy, directlyProvidedBy, fresh instances, class '
             'objects) compared with the interval.',
        ref='DESIGN.md 3.3, 4 C01'),
    'C02': dict(
        spec='SpecGraph.tla (MC_SpecGraph_dag, MC_SpecGraph_hist)',
        text='TLC checks ImpliedIsReach / DepsExact / FreshEquiv of the '
             'modelled changed()-propagation on every ordered-base DAG and '
             'every rebasing history within the bound; every state and '
             'transition is replayed into real InterfaceClass / Implements / '
             'Provides / Declaration objects (C and Python) and the whole '
             'isOrExtends / extends / providedBy matrix is compared.',
        ref='DESIGN.md 3.1, 4 C02',
        tech_extra='; traces recorded from the real code (seeded random '
                   'programs with re-basing from inside change notifications) '
                   'validated by TraceSpecGraph.tla (code->spec conformance)'),
    'C03': dict(
        spec='SpecGraph.tla (MC_SpecGraph_dag, MC_SpecGraph_hist)',
        text='TLC checks SroValid / SroIsC3 / StrictIff of the modelled '
             '_calculate_sro (C3 over cached base orders, legacy fallback) '
             'against a declarative recursive C3 on every ordered-base DAG '
             'and after rebasing histories; each DAG is an implementation '
             'test for __sro__, __iro__, ro(strict=True), is_consistent, '
             'with CPython type.mro() guarding the spec itself.',
        ref='DESIGN.md 3.1, 4 C03',
        tech_extra='; traces recorded from the real code (seeded random '
                   'programs with re-basing from inside change notifications) '
                   'validated by TraceSpecGraph.tla (code->spec conformance)'),
    'C04': dict(
        spec='Registry.tla (MC_Registry order configs)',
        text='TLC checks WalkIsBest (the modelled nested _lookup walk returns '
             'a rank-minimal applicable registration: registry order, then '
             'required positions left to right, then most general provided) '
             'and ExtOK in every registry content of the bound; each state is '
             'rebuilt on a real registry in random order with noise and every '
             'lookup key / entry point compared with the admissible set; '
             'extendor order is exhausted over a provided tree including '
             'Relookup (lookup object re-created over a populated registry), '
             'and registry order over chains of both flavours.',
        ref='DESIGN.md 3.6, 4 C04',
        tech_extra='; traces recorded from the real code (seeded random '
                   'drivers, the repository\'s doctests) validated by '
                   'TraceRegistry.tla (code->spec conformance)'),
    'C05': dict(
        spec='Registry.tla (MC_Registry cache configs, push and verify)',
        text='TLC checks CacheTransparent over all interleavings of lookup / '
             'lookupAll / subscriptions (caches, watch sets and generation '
             'snapshots modelled as implemented) with register, unregister, '
             'subscribe, unsubscribe, registry re-basing and re-basing of '
             'required specifications; every transition is replayed sparsely '
             '(only the queries of the behaviour) and probed densely at the '
             'end against admissible sets computed from primary state only.',
        ref='DESIGN.md 3.6, 4 C05',
        tech_extra='; traces recorded from the real code (seeded random '
                   'drivers, the repository\'s doctests) validated by '
                   'TraceRegistry.tla (code->spec conformance)'),
    'C06': dict(
        spec='Registry.tla (MC_Registry chain configs, push and verify; '
             'MC_RegistryComp: component registries owning registries)',
        text='TLC checks RoIsFresh and WalkIsBest/CacheTransparent for chains '
             'and DAGs of three (exhaustive) and four (random) registries of '
             'both flavours with __bases__ reassigned at any level and '
             'registrations in any member, and LinkedUnlessStale / '
             'AssignRelinks for Components whose constructors are re-run and '
             'whose __bases__ are re-assigned; all transitions replayed on '
             'real AdapterRegistry / VerifyingAdapterRegistry chains and '
             'real Components objects (adapters and utilities side).',
        ref='DESIGN.md 3.6, 4 C06',
        tech_extra='; traces recorded from the real code (seeded random '
                   'drivers, the repository\'s doctests) validated by '
                   'TraceRegistry.tla (code->spec conformance)'),
    'C07': dict(
        spec='Registry.tla (MC_Registry subscription configs)',
        text='TLC checks SubsExact (result is a concatenation of exactly the '
             'applicable live subscription entries, base registries first, '
             'more general required tuples first, subscription order kept) '
             'on every subscription content of the bound over two '
             'registries; states replayed with duplicates, handlers, '
             'arity 0..2 and compared through subscriptions / subscribers / '
             'subscribed / allSubscriptions.',
        ref='DESIGN.md 3.6, 4 C07',
        tech_extra='; traces recorded from the real code (seeded random '
                   'drivers, the repository\'s doctests) validated by '
                   'TraceRegistry.tla (code->spec conformance)'),
    'C08': dict(
        spec='Registry.tla (MC_Registry cache + order configs)',
        text='TLC checks EntryPointsAgree on the mechanism and the replay '
             'asks every entry point (lookup with tuple/list/lazy required, '
             'lookup1, adapter_hook, queryAdapter, queryMultiAdapter, '
             'lookupAll, names, subscribers) for every key in every state and '
             'along every transition (the entry point used by a behaviour\'s '
             'query steps is drawn per step), comparing each with the same '
             'admissible set, defaults by identity, factories returning None, '
             'non-string names on cold and warm caches.',
        ref='DESIGN.md 3.6, 4 C08',
        tech_extra='; traces recorded from the real code (seeded random '
                   'drivers, the repository\'s doctests) validated by '
                   'TraceRegistry.tla (code->spec conformance)'),
    'C09': dict(
        spec='Registry.tla (MC_Registry bookkeeping configs)',
        text='TLC explores register / re-register / unregister (with and '
             'without value, equal-but-distinct values) / subscribe / '
             'unsubscribe / rebuild histories; each transition is replayed '
             'and registered / allRegistrations / subscribed / '
             'allSubscriptions compared with the net effect; copying into a '
             'fresh registry and rebuild() must answer every probe '
             'identically.',
        ref='DESIGN.md 3.6, 4 C09',
        tech_extra='; traces recorded from the real code (seeded random '
                   'drivers, the repository\'s doctests) validated by '
                   'TraceRegistry.tla (code->spec conformance)'),
    'C10': dict(
        spec='ApiProgram.tla (MC_ApiProgram) + Registry / Declarations / '
             'SpecGraph corpora',
        text='Refinement of the same specifications by both implementations: '
             'TLC-generated behaviours of the domain specifications are '
             'accepted under PURE_PYTHON=0 and =1, and TLC-generated whole '
             'API programs (ApiProgram.tla: every operation family, odd '
             'operands, bad names, cached answers through every entry point, '
             'renamed interfaces, re-entrant hooks) whose results the '
             'specification leaves unconstrained are executed under both '
             'implementations and their observation traces compared step by '
             'step (value / exception type).',
        ref='DESIGN.md 3.10, 4 C10',
        tech_extra='; trace-against-trace comparison of the two '
                   'implementations on TLC-generated API programs'),
    'C11': dict(
        spec='LookupMem.tla (MC_LookupMem, TraceLookupMem), '
             'LookupWalk.tla (MC_LookupWalk)',
        text='TLC explores every call-out point of every lookup entry point x '
             'every foreign action (mutate, raise, re-enter) x thread '
             'interleavings at call-outs and checks NoUseAfterFree, '
             'RefcountBalanced, NoStaleSurvives, AnswerLinearizable; the '
             'schedules are injected deterministically into the real C and '
             'Python lookups with an ownership audit of the cache containers, '
             'leak audit on exceptional exits, and real-thread stress whose '
             'call log is validated by TraceLookupMem; LookupWalk opens the '
             'uncached walk up: one mutation between any two container '
             'accesses, BeforeOrAfter checked on the copy-on-write mechanism '
             '(refuted for in-place extendor lists), every initial state '
             'injected into the real walk at every access in turn.',
        ref='DESIGN.md 3.7, 4 C11',
        tech_extra='; recorded call logs validated by TLC (code->spec)'),
    'C12': dict(
        spec='Ordering.tla (MC_Ordering)',
        text='TLC checks the comparison laws (C short-cut = tuple comparison '
             'of (name, module), total order, hash consistency, None last, '
             'NotImplemented for key-less operands) over all pairs/triples of '
             'the universe; every pair is evaluated on real interfaces and '
             'class specifications, and sorted sequences must be identical '
             'across hash seeds and implementations.',
        ref='DESIGN.md 3.4, 4 C12'),
    'C13': dict(
        spec='Declarations.tla (MC_Declarations, RoundTrip*)',
        text='At every reachable declaration state (and along random long '
             'behaviours) every interface, class specification, instance and '
             'class provides-declaration and declared object is really '
             'pickled and unpickled with all protocols; identity / equality / '
             'hash-equality / provided sets are compared with the spec '
             '(RoundTripIdentity, RoundTripSameInterfaces) and the pickle '
             'opcodes are scanned for definition state.',
        ref='DESIGN.md 3.3, 4 C13'),
    'C14': dict(
        spec='Adapt.tla (MC_Adapt)',
        text='TLC walks every combination of __conform__ behaviour, provided '
             'or not, hook lists, alternate, custom __adapt__ through the '
             'step machine of IB__call__ and checks outcome = Expected, '
             'NoLaterStep, ExceptionsPropagate, CustomReplaces; every '
             'terminal state is executed on the real interface call (C and '
             'Python) comparing outcome and call log.',
        ref='DESIGN.md 3.5, 4 C14'),
    'C15': dict(
        spec='SpecGraph.tla (MC_SpecGraph_dag, MC_SpecGraph_hist)',
        text='TLC checks MemoSound / AccessorsAgree on every DAG x every '
             'set of defining interfaces and on rebasing histories with '
             'interleaved get(); every state/transition is replayed and all '
             'accessors (getitem/get/in/iter/names/namesAndDescriptions/'
             'tagged values/invariants) compared with the spec owner.',
        ref='DESIGN.md 3.1, 4 C15',
        tech_extra='; traces recorded from the real code (seeded random '
                   'programs with re-basing from inside change notifications) '
                   'validated by TraceSpecGraph.tla (code->spec conformance)'),
    'C16': dict(
        spec='Components.tla (MC_Components)',
        text='TLC explores the eight register*/unregister* methods with '
             'equal / identical / hashable / unhashable components, names, '
             'related provided interfaces, factories, re-initialisation and '
             'checks ListingsExact, RegistriesMatch, EventsExact, '
             'ReturnValueExact, CounterExact; every transition is replayed '
             'on a real Components with notify recorded, comparing listings, '
             'queries, events, return values and '
             'rebuildUtilityRegistryFromLocalCache().',
        ref='DESIGN.md 3.8, 4 C16'),
    'C17': dict(
        spec='Signatures.tla (MC_Signatures, verify modes)',
        text='TLC checks Incompat # None <=> some admitted call shape does '
             'not bind, and the aggregation rule, over the whole signature '
             'grid; every grid point becomes real interface/implementation '
             'functions run through verifyObject / verifyClass (function '
             'attribute, bound method, class function, factory candidate; '
             'the same function under both binding levels in sequence; '
             'interfaces re-defining inherited methods; decorated '
             'implementations), with inspect.signature guarding the '
             'specification.',
        ref='DESIGN.md 3.9, 4 C17'),
    'C18': dict(
        spec='Signatures.tla (MC_Signatures, describe mode)',
        text='TLC checks Describe(sig) = Truth(sig) (fromFunction\'s index '
             'arithmetic over the code object layout) over all signatures of '
             'the grid including positional-only, keyword-only, bound '
             'methods; each signature is exec\'ed into a real function and '
             'getSignatureInfo / getSignatureString compared.',
        ref='DESIGN.md 3.9, 4 C18'),
    'C19': dict(
        spec='Declarations.tla (MC_Declarations, WithSuper)',
        text='TLC checks SuperIsRestOfMro with the per-class super cache and '
             'its invalidation modelled, over all class-declaration '
             'histories with super queries interleaved on diamond / mixin / '
             'chain shapes; behaviours replayed with real super() proxies '
             'through providedBy, implementedBy, I.providedBy and registry '
             'adaptation (queryAdapter, adapter_hook, queryMultiAdapter).',
        ref='DESIGN.md 3.3, 4 C19'),
    'C20': dict(
        spec='DeclAlgebra.tla (MC_DeclAlgebra)',
        text='TLC evaluates the ordered-set laws (iteration, membership, '
             'flattened, -, +, operands unchanged) as invariants over every '
             'pair of declarations of the universe and nested argument '
             'shapes; every pair is evaluated on real Declaration / '
             'Implements / Provides operands and through alsoProvides / '
             'noLongerProvides / directlyProvidedBy.',
        ref='DESIGN.md 3.2, 4 C20'),
}

NOTE = ('bounded universes (constants in evidence tlc_runs); trusted: TLC, '
        'CommunityModules Json, the out-of-tree build + world builder in '
        'harness/, CPython')


def main():
    props = [json.loads(l)['id'] for l in
             open(os.path.join(VERIF, 'properties.jsonl'))]
    checks = []
    na = []
    for pid in props:
        c = CHECKS.get(pid)
        if c is None:
            na.append({'property_id': pid, 'reason': PENDING})
            continue
        checks.append({
            'property_id': pid,
            'quick_cmd': './check %s --tier quick' % pid,
            'thorough_cmd': './check %s --tier thorough' % pid,
            'evidence_file': 'evidence/%s.json' % pid,
            'replay_cmd_template': './check %s --replay {path}' % pid,
            'engine': 'tlc+replay',
            'level_claimed': {'category': 'model_checking',
                              'text': c['text'], 'design_ref': c['ref']},
            'level_note': c.get('note', NOTE),
            'technique': 'explicit TLA+ spec (%s) model-checked with TLC; '
                         'TLC-generated states/behaviours replayed into the '
                         'real code under both implementations (spec->code '
                         'conformance)%s' % (
                             c['spec'], c.get('tech_extra', '')),
        })
    m = {
        'version': 1,
        'setup_cmd': './setup.sh',
        'hooks': {
            'guard': 'ZOPE_INTERFACE_VERIF',
            'enable': 'no source hooks: all observation goes through public '
                      'API and documented extension points; checks build '
                      "/repo's working tree out of tree (harness/common.py "
                      'Build)',
            'baseline_off_cmd': 'cd /repo && /venv/bin/python -m pytest -ra '
                                '-q -p no:cacheprovider --timeout=900 '
                                '--continue-on-collection-errors',
            'source_commits': [],
            'add_only': True,
        },
        'engines': [{
            'name': 'tlc+replay', 'path': 'harness/check.py',
            'serves_properties': [c['property_id'] for c in checks],
            'kind_free_text': 'TLC model checking of spec/*.tla + replay of '
                              'TLC-generated behaviours into the real '
                              'package (both implementations) + TLC '
                              'validation of recorded traces'}],
        'checks': checks,
        'notes': 'see DESIGN.md; known_findings.json lists fixed defects '
                 '(fix: commits in /repo) and recorded findings',
        'not_applicable': na,
    }
    with open(os.path.join(VERIF, 'MANIFEST.json'), 'w') as f:
        json.dump(m, f, indent=1)


if __name__ == '__main__':
    main()
