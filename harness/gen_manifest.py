"""Regenerates /verif/MANIFEST.json from the table below."""
import json
import os

VERIF = os.path.dirname(os.path.dirname(os.path.abspath(__file__)))
PENDING = ('check not built yet (framework under construction); will be '
           'claimed once its TLA+ spec and conformance harness exist')

CHECKS = {
    'C02': dict(
        spec='SpecGraph.tla (MC_SpecGraph_dag, MC_SpecGraph_hist)',
        text='TLC checks ImpliedIsReach / DepsExact / FreshEquiv of the '
             'modelled changed()-propagation on every ordered-base DAG and '
             'every rebasing history within the bound; every state and '
             'transition is replayed into real InterfaceClass / Implements / '
             'Provides / Declaration objects (C and Python) and the whole '
             'isOrExtends / extends / providedBy matrix is compared.',
        ref='DESIGN.md 3.1, 4 C02'),
    'C03': dict(
        spec='SpecGraph.tla (MC_SpecGraph_dag, MC_SpecGraph_hist)',
        text='TLC checks SroValid / SroIsC3 / StrictIff of the modelled '
             '_calculate_sro (C3 over cached base orders, legacy fallback) '
             'against a declarative recursive C3 on every ordered-base DAG '
             'and after rebasing histories; each DAG is an implementation '
             'test for __sro__, __iro__, ro(strict=True), is_consistent, '
             'with CPython type.mro() guarding the spec itself.',
        ref='DESIGN.md 3.1, 4 C03'),
    'C15': dict(
        spec='SpecGraph.tla (MC_SpecGraph_dag, MC_SpecGraph_hist)',
        text='TLC checks MemoSound / AccessorsAgree on every DAG x every '
             'set of defining interfaces and on rebasing histories with '
             'interleaved get(); every state/transition is replayed and all '
             'accessors (getitem/get/in/iter/names/namesAndDescriptions/'
             'tagged values/invariants) compared with the spec owner.',
        ref='DESIGN.md 3.1, 4 C15'),
}

NOTE = ('bounded universes (constants in evidence tlc_runs); trusted: TLC, '
        'CommunityModules Json, the out-of-tree build + world builder in '
        'harness/, CPython')


def main():
    props = [json.loads(l)['id'] for l in
             open(os.path.join(VERIF, 'properties.jsonl'))]
    checks = []
    na = []
    for pid in props:
        c = CHECKS.get(pid)
        if c is None:
            na.append({'property_id': pid, 'reason': PENDING})
            continue
        checks.append({
            'property_id': pid,
            'quick_cmd': './check %s --tier quick' % pid,
            'thorough_cmd': './check %s --tier thorough' % pid,
            'evidence_file': 'evidence/%s.json' % pid,
            'replay_cmd_template': './check %s --replay {path}' % pid,
            'engine': 'tlc+replay',
            'level_claimed': {'category': 'model_checking',
                              'text': c['text'], 'design_ref': c['ref']},
            'level_note': c.get('note', NOTE),
            'technique': 'explicit TLA+ spec (%s) model-checked with TLC; '
                         'TLC-generated states/behaviours replayed into the '
                         'real code (spec->code conformance)%s' % (
                             c['spec'], c.get('tech_extra', '')),
        })
    m = {
        'version': 1,
        'setup_cmd': './setup.sh',
        'hooks': {
            'guard': 'ZOPE_INTERFACE_VERIF',
            'enable': 'no source hooks: all observation goes through public '
                      'API and documented extension points; checks build '
                      "/repo's working tree out of tree (harness/common.py "
                      'Build)',
            'baseline_off_cmd': 'cd /repo && /venv/bin/python -m pytest -ra '
                                '-q -p no:cacheprovider --timeout=900 '
                                '--continue-on-collection-errors',
            'source_commits': [],
            'add_only': True,
        },
        'engines': [{
            'name': 'tlc+replay', 'path': 'harness/check.py',
            'serves_properties': [c['property_id'] for c in checks],
            'kind_free_text': 'TLC model checking of spec/*.tla + replay of '
                              'TLC-generated behaviours into the real '
                              'package (both implementations) + TLC '
                              'validation of recorded traces'}],
        'checks': checks,
        'notes': 'see DESIGN.md; known_findings.json lists fixed defects '
                 '(fix: commits in /repo) and recorded findings',
        'not_applicable': na,
    }
    with open(os.path.join(VERIF, 'MANIFEST.json'), 'w') as f:
        json.dump(m, f, indent=1)


if __name__ == '__main__':
    main()
