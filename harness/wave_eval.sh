#!/bin/bash
# wave_eval.sh <id> <srcdir> <slot>: confirm a delivered seeded change, store it as seeded/<id>/, run its own
# property's quick check against it in private worktree /tmp/wt/eval<slot>; appends a line to ${WAVE_TSV:-/tmp/wave4.tsv}
ID=$1; SRC=$2; SLOT=$3; PID=${ID%%_*}
D=/verif/seeded/$ID; mkdir -p $D
cp $SRC/patch.diff $SRC/demo.py $SRC/meta.json $D/
CONF=$(WT=conf$SLOT /verif/harness/confirm_seed.sh $D)
/venv/bin/python - "$D/meta.json" "$ID" "$CONF" <<'PY'
import json, sys
p, i, conf = sys.argv[1:4]
m = json.load(open(p)); m['id'] = i; m["wave"] = int(__import__("os").environ.get("WAVE", "4"))
c = json.loads(conf)
m['confirmed'] = dict(c, by='harness/confirm_seed.sh in a scratch worktree of /repo HEAD', commands=[
 'git apply patch.diff (scratch worktree)', 'python setup.py build_ext --inplace',
 'pytest -q -p no:cacheprovider --timeout=900 --continue-on-collection-errors', 'python demo.py (C) ; PURE_PYTHON=1 python demo.py'])
json.dump(m, open(p, 'w'), indent=1)
PY
OUT=$(WT=eval$SLOT /verif/harness/try_wt.sh $D/patch.diff $PID quick | tr '\n' ' ')
echo -e "$ID\t$CONF\t$OUT" >> ${WAVE_TSV:-/tmp/wave4.tsv}
