"""Child: replays DeclAlgebra cases (TLC dumps of MC_DeclAlgebra) into real
Declaration / Implements / Provides objects and compares every observable
with the value (or admissible set) TLC computed.

job = {"mode": "single"|"pairs", "world": {"ni":.., "ibases": {...},
       "shape_d": [...], "shape_h": [...]}, "cases": [...], "seed": int,
       "all_kinds": bool, "shapes": {"<json list>": [items, items]}}
 single case: {"c": {"op":0|1|2, "d":[..], "h":[..], "items":[...]},
               "iter":[..], "mem":{..}, "flat":[..]|[-1], "adm":[[..]..],
               "dpb":[..]}
 pair case  : {"a":[..], "b":[..], "sub":[..], "add":[[..]..], "users":bool,
               "also":[..], "ia":[k..], "pa":[k..], "ib":[k..], "pb":[k..]}
result = {"evaluations": n, "mismatches": [...], "counts": {...}}

Nothing is derived here: inputs are turned into objects, results are turned
back into interface numbers and compared.
"""
import childlib
impl = childlib.boot()

import json
import random
import zlib

from zope.interface import Interface, alsoProvides, classImplements
from zope.interface import directlyProvidedBy, directlyProvides
from zope.interface import implementedBy, noLongerProvides, providedBy
from zope.interface.declarations import Declaration
from zope.interface.interface import InterfaceClass

job = childlib.job()
W = job['world']
NI = W['ni']
SEED = job.get('seed', 0)
evaluations = 0
mismatches = []
counts = {}
serial = [0]


def fget(f, k):
    """TLC functions arrive as dict (string keys) or list (domain 1..n)."""
    if isinstance(f, dict):
        return f[str(k)]
    return f[k - 1]


def count(k, n=1):
    counts[k] = counts.get(k, 0) + n


def mism(ctx, what, expected, got):
    count('mismatches')
    if len(mismatches) < 60:
        mismatches.append({'ctx': ctx, 'what': what, 'expected': expected,
                           'got': got, 'impl': impl, 'case_idx': childlib.CASE[0]})


# ---------------------------------------------------------------- world
# interfaces are equal iff (name, module) are equal: unique module per child
MODULE = 'verifdecl_%s_%d' % (impl, SEED)
IFACE = {0: Interface}
for n in range(1, NI + 1):
    IFACE[n] = InterfaceClass(
        'I%d' % n, tuple(IFACE[m] for m in fget(W['ibases'], n)),
        __module__=MODULE)
IDENT = {v: k for k, v in IFACE.items()}
OBJSPEC, BASESPEC, LEAFSPEC = NI + 1, NI + 2, NI + 3


def names(nums):
    return ', '.join('I%d' % n if n else 'Interface' for n in nums)


WORLD = '; '.join('I%d(%s)' % (n, names(fget(W['ibases'], n)))
                  for n in range(1, NI + 1))


def ident(x):
    try:
        return IDENT[x]
    except (KeyError, TypeError):
        return 'foreign:%r' % (x,)


def idents(it):
    return [ident(x) for x in it]


def ifs(nums):
    return [IFACE[n] for n in nums]


def newclass(name, bases=(object,)):
    serial[0] += 1
    return type('%s%d' % (name, serial[0]), bases, {'__module__': MODULE})


class ClassWorld:
    """class B implements H; class C(B) implements D  (one call each, as
    the @implementer decorator does)."""
    cache = {}

    def __init__(self, d, h):
        self.B = newclass('B')
        if h:
            classImplements(self.B, *ifs(h))
        self.C = newclass('C', (self.B,))
        if d:
            classImplements(self.C, *ifs(d))

    @classmethod
    def get(cls, d, h):
        key = (tuple(d), tuple(h))
        w = cls.cache.get(key)
        if w is None:
            w = cls.cache[key] = cls(d, h)
        return w

    def atom(self, n):
        if n <= NI:
            return IFACE[n]
        if n == BASESPEC:
            return implementedBy(self.B)
        if n == LEAFSPEC:
            return implementedBy(self.C)
        raise ValueError(n)


class ProvWorld:
    """class K implements H; ob = K(); directlyProvides(ob, *D)"""

    def __init__(self, d, h):
        self.K = newclass('K')
        if h:
            classImplements(self.K, *ifs(h))
        self.ob = self.K()
        directlyProvides(self.ob, *ifs(d))


SEQ_SERIAL = [0]


def realise(items, cw, flip):
    """nested TLC items -> nested Python arguments (tuples and lists
    alternate with depth so both sequence types are exercised)."""
    out = []
    for it in items:
        k = it['k']
        if k == 0:
            out.append(cw.atom(it['i']))
        elif k == 1:
            inner = realise(it['s'], cw, not flip)
            SEQ_SERIAL[0] += 1
            if SEQ_SERIAL[0] % 3 == 0:
                # any iterable is flattened, also one that can be walked
                # only once (an iterator, a generator)
                out.append(iter(inner) if flip else (x for x in inner))
            else:
                out.append(list(inner) if flip else tuple(inner))
        elif k == 2:
            out.append(Declaration(*realise(it['s'], cw, flip)))
        else:
            raise ValueError(k)
    return out


def pretty(items, flip=False):
    out = []
    for it in items:
        if it['k'] == 0:
            n = it['i']
            out.append('I%d' % n if 0 < n <= NI else 'Interface' if n == 0
                       else 'implementedBy(B)' if n == BASESPEC
                       else 'implementedBy(C)')
        elif it['k'] == 1:
            inner = pretty(it['s'], not flip)
            out.append('[%s]' % inner if flip else
                       '(%s%s)' % (inner, ',' if len(it['s']) == 1 else ''))
        else:
            out.append('Declaration(%s)' % pretty(it['s'], flip))
    return ', '.join(out)


def guarded(ctx, what, fn):
    """run code under test; an exception is a mismatch, not a crash."""
    try:
        return True, fn()
    except Exception as e:  # noqa: BLE001 - anything the library raises
        mism(ctx, what, 'no exception', '%s: %s' % (type(e).__name__, e))
        return False, None


def expect_eq(ctx, what, expected, fn):
    global evaluations
    evaluations += 1
    ok, got = guarded(ctx, what, fn)
    if ok and got != expected:
        mism(ctx, what, expected, got)
        return False
    return ok


def expect_in(ctx, what, admissible, fn):
    global evaluations
    evaluations += 1
    ok, got = guarded(ctx, what, fn)
    if ok and got not in admissible:
        mism(ctx, what, {'one_of': admissible}, got)
        return False
    return ok


# ---------------------------------------------------------------- single
def run_single(case):
    c = case['c']
    op = c['op']
    if op == 0:
        ctx = {'X': 'Declaration(%s)' % pretty(c['items'])}
        if 'implementedBy' in ctx['X']:
            ctx['classes'] = 'B implements (%s); C(B) implements (%s)' % (
                names(c['h']), names(c['d']))
    elif op == 1:
        ctx = {'X': 'implementedBy(C)', 'classes': 'B implements (%s); '
               'C(B) implements (%s)' % (names(c['h']), names(c['d']))}
    else:
        ctx = {'X': 'ob.__provides__', 'classes': 'K implements (%s); '
               'ob = K(); directlyProvides(ob, %s)' % (names(c['h']),
                                                       names(c['d']))}
    ctx['world'] = WORLD
    if op == 0:
        cw = ClassWorld.get(c['d'], c['h'])
        ok, X = guarded(ctx, 'Declaration(*args)', lambda: Declaration(
            *realise(c['items'], cw, False)))
        if not ok:
            return
    elif op == 1:
        # a fresh class pair per case: implementedBy(C)
        ok, cw = guarded(ctx, 'classImplements', lambda: ClassWorld(
            c['d'], c['h']))
        if not ok:
            return
        X = implementedBy(cw.C)
    else:
        ok, pw = guarded(ctx, 'directlyProvides', lambda: ProvWorld(
            c['d'], c['h']))
        if not ok:
            return
        X = pw.ob.__provides__
        expect_eq(ctx, 'providedBy(ob) is ob.__provides__', True,
                  lambda: providedBy(pw.ob) is X)
        expect_eq(ctx, 'list(directlyProvidedBy(ob))', case['dpb'],
                  lambda: idents(directlyProvidedBy(pw.ob)))
    count('single_op%d' % op)
    expect_eq(ctx, 'list(X)', case['iter'], lambda: idents(X))
    expect_eq(ctx, 'list(X.interfaces())', case['iter'],
              lambda: idents(X.interfaces()))
    for i in range(0, NI + 1):
        expect_eq(ctx, 'I%d in X' % i, fget(case['mem'], i)
                  if isinstance(case['mem'], dict) else case['mem'][i],
                  lambda: IFACE[i] in X)
    if case['flat'] != [-1]:
        expect_eq(ctx, 'list(X.flattened())', case['flat'],
                  lambda: idents(X.flattened()))
    else:
        count('flat_admissible_set')
        expect_in(ctx, 'list(X.flattened())', case['adm'],
                  lambda: idents(X.flattened()))
    # iterating twice gives the same answer (no consumed state)
    expect_eq(ctx, 'list(X) again', case['iter'], lambda: idents(X))


# ---------------------------------------------------------------- pairs
class Operand:
    """One realisation of an iteration list L."""

    def __init__(self, kind, L, k=None, items=None):
        self.kind, self.L, self.k = kind, L, k
        self.ob = None
        if kind == 'decl':
            self.X = Declaration(*ifs(L))
        elif kind == 'shape':
            self.X = Declaration(*realise(items, ClassWorld.get((), ()),
                                          False))
        elif kind == 'impl':
            self.keep = ClassWorld(L[:k], L[k:])
            self.X = implementedBy(self.keep.C)
        elif kind == 'prov':
            self.keep = ProvWorld(L[:k], L[k:])
            self.ob = self.keep.ob
            self.X = self.ob.__provides__
        else:
            raise ValueError(kind)
        self.bases = tuple(self.X.__bases__)

    def label(self):
        return self.kind if self.k is None else '%s@%d' % (self.kind, self.k)


OPCACHE = {}


def operand(ctx, kind, L, k=None, v=None):
    key = (kind, tuple(L), k, v)
    o = OPCACHE.get(key)
    if o is None:
        items = None
        if kind == 'shape':
            items = job['shapes'][json.dumps(L)][v]
        ok, o = guarded(ctx, 'build %s operand' % kind,
                        lambda: Operand(kind, L, k, items))
        if not ok:
            return None
        OPCACHE[key] = o
    return o


def kinds_for(case, side):
    L = case[side]
    out = [('shape', None, 0), ('shape', None, 1)]
    out += [('impl', k, None) for k in case['i' + side]]
    out += [('prov', k, None) for k in case['p' + side]]
    return out


def unchanged(ctx, o, who):
    same = (tuple(o.X.__bases__) == o.bases and
            all(x is y for x, y in zip(o.X.__bases__, o.bases)))
    ok = expect_eq(ctx, 'operand %s unchanged: list' % who, o.L,
                   lambda: idents(o.X))
    ok = expect_eq(ctx, 'operand %s unchanged: __bases__' % who, True,
                   lambda: same) and ok
    if o.ob is not None:
        ok = expect_eq(ctx, 'operand %s unchanged: object still provides it'
                       % who, True, lambda: providedBy(o.ob) is o.X) and ok
    if not ok:
        # do not let a damaged operand poison later cases
        for key, val in list(OPCACHE.items()):
            if val is o:
                del OPCACHE[key]


def run_ops(case, X, Y, ctx):
    a, b = case['a'], case['b']
    count('pair_ops_%s_%s' % (X.kind, Y.kind))
    if not expect_eq(ctx, 'list(A)', a, lambda: idents(X.X)):
        return
    if not expect_eq(ctx, 'list(B)', b, lambda: idents(Y.X)):
        return
    expect_eq(ctx, 'list(A - B)', case['sub'], lambda: idents(X.X - Y.X))
    expect_in(ctx, 'list(A + B)', case['add'], lambda: idents(X.X + Y.X))
    if len(b) == 1:
        # "a specification and an interface"
        expect_eq(ctx, 'list(A - I)', case['sub'],
                  lambda: idents(X.X - IFACE[b[0]]))
        expect_in(ctx, 'list(A + I)', case['add'],
                  lambda: idents(X.X + IFACE[b[0]]))
    ok, r = guarded(ctx, 'A + B', lambda: X.X + Y.X)
    if ok:
        # the results are declarations of their own
        expect_eq(ctx, 'type(A + B)', True, lambda: isinstance(r, Declaration)
                  and r is not X.X and r is not Y.X)
    unchanged(ctx, X, 'A')
    unchanged(ctx, Y, 'B')


class Plain:
    pass


Plain.__module__ = MODULE


def run_users(case, Y, rnd, ctx):
    a, b = case['a'], case['b']
    count('pair_users')
    ob = Plain()
    if not guarded(ctx, 'directlyProvides(ob, *A)',
                   lambda: directlyProvides(ob, *ifs(a)))[0]:
        return
    expect_eq(ctx, 'list(directlyProvidedBy(ob))', a,
              lambda: idents(directlyProvidedBy(ob)))
    if rnd.random() < 0.5:
        ok = guarded(ctx, 'alsoProvides(ob, *B)',
                     lambda: alsoProvides(ob, *ifs(b)))[0]
    else:
        ok = guarded(ctx, 'alsoProvides(ob, B)',
                     lambda: alsoProvides(ob, Y.X))[0]
    if ok:
        expect_eq(ctx, 'list(directlyProvidedBy(ob)) after alsoProvides',
                  case['also'], lambda: idents(directlyProvidedBy(ob)))
        expect_eq(ctx, 'list(providedBy(ob)) after alsoProvides',
                  case['also'], lambda: idents(providedBy(ob)))
    ob2 = Plain()
    if not guarded(ctx, 'directlyProvides(ob2, *A)',
                   lambda: directlyProvides(ob2, *ifs(a)))[0]:
        return
    ok = True
    for i in b:
        ok = ok and guarded(ctx, 'noLongerProvides(ob, I%d)' % i,
                            lambda: noLongerProvides(ob2, IFACE[i]))[0]
    if ok:
        expect_eq(ctx, 'list(directlyProvidedBy(ob)) after noLongerProvides'
                  ' of each interface of B', case['sub'],
                  lambda: idents(directlyProvidedBy(ob2)))


def run_pair(case):
    a, b = case['a'], case['b']
    rnd = random.Random(zlib.crc32(json.dumps([a, b]).encode()) ^ SEED)
    base = {'a': a, 'b': b, 'world': WORLD}
    X0 = operand(base, 'decl', a)
    Y0 = operand(base, 'decl', b)
    if X0 is None or Y0 is None:
        return
    combos = [(X0, Y0)]
    ka, kb = kinds_for(case, 'a'), kinds_for(case, 'b')
    if job.get('all_kinds'):
        # every realisation of one side (which side: by the pair's hash)
        # against the plain Declaration of the other
        if rnd.random() < 0.5:
            for (kind, k, v) in ka:
                combos.append((operand(base, kind, a, k, v), Y0))
        else:
            for (kind, k, v) in kb:
                combos.append((X0, operand(base, kind, b, k, v)))
    (kind, k, v) = rnd.choice(ka)
    (kind2, k2, v2) = rnd.choice(kb)
    combos.append((operand(base, kind, a, k, v),
                   operand(base, kind2, b, k2, v2)))
    for X, Y in combos:
        if X is None or Y is None:
            continue
        ctx = {'a': a, 'b': b, 'A_as': X.label(), 'B_as': Y.label(),
               'world': WORLD}
        run_ops(case, X, Y, ctx)
    if case['users']:
        run_users(case, Y0, rnd, dict(base, users=True))


def main():
    mode = job['mode']
    for childlib.CASE[0], case in enumerate(job['cases']):
        if mode == 'single':
            run_single(case)
        else:
            run_pair(case)
    childlib.done({'evaluations': evaluations, 'mismatches': mismatches,
                   'counts': counts})


main()
