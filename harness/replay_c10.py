"""Child: executes ApiProgram.tla behaviours (whole API programs) against the
implementation it is bound to and returns, per program, the canonical
observation of every step (value, or exception TYPE).  The parent runs the
same programs under both implementations and compares the traces.

job = {"programs": [[op, ...], ...]}
"""
import childlib
impl = childlib.boot()

import gc
import sys
import types

import zope.interface
from zope.interface import Interface, alsoProvides, classImplements
from zope.interface import classImplementsFirst, classImplementsOnly
from zope.interface import directlyProvidedBy, directlyProvides
from zope.interface import implementedBy, noLongerProvides, providedBy
from zope.interface import interface as zi_interface
from zope.interface.adapter import AdapterRegistry, VerifyingAdapterRegistry
from zope.interface.declarations import Provides
from zope.interface.interface import InterfaceClass, Specification

job = childlib.job()
DEFAULT = object()
import os
DEBUG = bool(os.environ.get('C10_DEBUG'))


class V:
    def __init__(self, name, eq, ret_none=False):
        self.name = name
        self.eq = eq
        self.ret_none = ret_none

    def __call__(self, *args):
        if self.ret_none:
            return None
        return Result(self, args)

    def __eq__(self, other):
        return isinstance(other, V) and other.eq == self.eq

    def __ne__(self, other):
        return not self.__eq__(other)

    def __hash__(self):
        return hash(self.eq)


class Result:
    def __init__(self, v, args):
        self.v = v
        self.args = args


class LazySeq:
    def __init__(self, items):
        self.items = items

    def __iter__(self):
        return iter(list(self.items))

    def __len__(self):
        return len(self.items)


class Named:
    """foreign object carrying the attributes the comparison looks at"""
    __name__ = 'I2'
    __module__ = 'zzz'


class NameOnly:
    __name__ = 'I2'


class World:
    serial = 0

    def __init__(self):
        World.serial += 1
        self.mod = 'c10world%d' % World.serial
        m = types.ModuleType(self.mod)
        sys.modules[self.mod] = m
        mk = lambda n, b: InterfaceClass(n, b, __module__=self.mod)
        I1 = mk('I1', (Interface,))
        I2 = mk('I2', (I1,))
        I3 = mk('I3', (Interface,))
        I4 = mk('I4', (I2, I3))
        K1 = type('K1', (object,), {'__module__': self.mod})
        K2 = type('K2', (K1,), {'__module__': self.mod})
        K3 = type('K3', (object,), {'__module__': self.mod})
        classImplements(K1, I1)
        self.names = {}
        self.o = {'I1': I1, 'I2': I2, 'I3': I3, 'I4': I4, 'K1': K1, 'K2': K2,
                  'K3': K3, 'o1': K1(), 'o2': K2(), 'o3': K3(),
                  'Interface': Interface, 'None': None}
        for k, v in list(self.o.items()):
            if k not in ('None',):
                setattr(m, k, v) if isinstance(v, (type, InterfaceClass)) \
                    else None
        directlyProvides(self.o['o2'], I3)
        o = self.o
        o['x_none'] = None
        o['x_int'] = 42
        o['x_str'] = 'str'
        o['x_builtin'] = int
        o['x_func'] = lambda *a: None
        o['x_super'] = super(K2, o['o2'])
        o['x_cls'] = K1
        o['x_named'] = Named()
        o['I2twin'] = InterfaceClass(''.join(['I', '2']), (I1,),
                                     __module__=self.mod)
        o['I2dupmod'] = InterfaceClass(''.join(['I', '2']), (I1,),
                                       __module__=''.join(['zzz.', 'gen']))
        o['x_nameonly'] = NameOnly()

        class PbAttr:
            @property
            def __providedBy__(self):
                raise AttributeError('__providedBy__')

        class PbVal:
            @property
            def __providedBy__(self):
                raise ValueError('boom')

        class ConfVal:
            def __conform__(self, iface):
                return ('conformed', iface.__name__)

        class ConfNone:
            def __conform__(self, iface):
                return None

        class ConfRaise:
            def __conform__(self, iface):
                raise KeyError('conform')

        class Slots:
            __slots__ = ()

        class Other:
            pass
        o['x_pbAttrErr'] = PbAttr()
        o['x_pbValErr'] = PbVal()
        o['x_confVal'] = ConfVal()
        o['x_confNone'] = ConfNone()
        o['x_confRaise'] = ConfRaise()
        ci = Other()
        ci.__conform__ = lambda iface: ('instance-conformed', iface.__name__)
        o['x_confInst'] = ci
        o['x_slots'] = Slots()
        po = Other()
        po.__provides__ = Provides(K3, I2)     # a declaration made for K3
        o['x_provOther'] = po
        for k in ('x_pbAttrErr', 'x_pbValErr', 'x_confVal', 'x_confNone',
                  'x_confRaise', 'x_confInst', 'x_slots', 'x_provOther', 'x_func',
                  'x_named', 'x_nameonly'):
            self.names[id(o[k])] = (k, o[k])
        for k in ('I2twin', 'I2dupmod', 'I1', 'I2', 'I3', 'I4', 'K1', 'K2', 'K3', 'o1', 'o2', 'o3'):
            self.names[id(o[k])] = (k, o[k])
        self.names[id(Interface)] = ('Interface', Interface)
        g1 = AdapterRegistry()
        g2 = AdapterRegistry((g1,))
        g3 = VerifyingAdapterRegistry((g1,))
        self.g = {1: g1, 2: g2, 3: g3}
        for k, r in self.g.items():
            self.names[id(r)] = ('g%d' % k, r)
        self.v = {'v1': V('v1', 1), 'v2': V('v2', 2), 'v2eq': V('v2eq', 2),
                  'vNoneFactory': V('vNoneFactory', 3, True), 'None': None}
        for k, v in self.v.items():
            if v is not None:
                self.names[id(v)] = (k, v)
        self.saved_hooks = list(zi_interface.adapter_hooks)
        self.renamed = []

    def close(self):
        zi_interface.adapter_hooks[:] = self.saved_hooks
        sys.modules.pop(self.mod, None)

    # ---- operand resolution
    def spec(self, s):
        if s.startswith('impl:'):
            return implementedBy(self.o[s[5:]])
        if s.startswith('prov:'):
            return providedBy(self.o[s[5:]])
        if s == 'empty':
            return implementedBy(type('Fresh', (), {}))   # no declarations
        return self.o[s]

    def req(self, r):
        return [self.spec(x) if x != 'None' else None for x in r]

    def name(self, nm):
        return {'': '', 'n': 'n', 'bytes': b'n', 'none': None, 'zero': 0,
                'obj': object()}[nm]

    def default(self, d):
        return () if d == 'nodefault' else (DEFAULT,)

    # ---- canonical form of an observation
    def canon(self, x, depth=0):
        if x is DEFAULT:
            return 'DEFAULT'
        if x is None or isinstance(x, (bool, int)):
            return x
        if isinstance(x, str):
            return 's:' + x
        if isinstance(x, bytes):
            return 'b:' + x.decode('latin1')
        n = self.names.get(id(x))
        if n is not None and n[1] is x:     # ids are reused after collection
            return n[0]
        if isinstance(x, Result):
            return ['result', self.canon(x.v), [self.canon(a) for a in x.args]]
        if isinstance(x, InterfaceClass):
            return 'iface:%s.%s' % (x.__module__, x.__name__)
        if isinstance(x, Specification):
            try:
                flat = [self.canon(i) for i in x.flattened()]
            except Exception as e:          # noqa
                flat = 'EXC:' + type(e).__name__
            return ['spec', type(x).__name__, flat]
        if isinstance(x, (tuple, list)):
            if depth > 6:
                return 'deep'
            return [self.canon(i, depth + 1) for i in x]
        if isinstance(x, dict):
            return sorted(([self.canon(k), self.canon(v)]
                           for k, v in x.items()), key=repr)
        if isinstance(x, super):
            return 'super'
        if isinstance(x, type):
            return 'type:' + x.__name__
        if hasattr(x, '__iter__') and not isinstance(x, (str, bytes)):
            try:
                return ['iter', [self.canon(i, depth + 1) for i in x]]
            except Exception as e:          # noqa
                return 'EXC:' + type(e).__name__ + (('|' + str(e)[:80]) if DEBUG else '')
        return 'obj:' + type(x).__name__

    # ---- one operation
    def run(self, a):
        try:
            return self.canon(self.do(a))
        except Exception as e:              # the observation is the TYPE
            return 'EXC:' + type(e).__name__ + (('|' + str(e)[:80]) if DEBUG else '')

    def do(self, a):
        op = a['op']
        o = self.o
        if op in ('classImplements', 'classImplementsOnly',
                  'classImplementsFirst'):
            f = {'classImplements': classImplements,
                 'classImplementsOnly': classImplementsOnly,
                 'classImplementsFirst': classImplementsFirst}[op]
            return f(o[a['c']], *[o[i] for i in a['ifs']])
        if op in ('directlyProvides', 'alsoProvides', 'noLongerProvides'):
            f = {'directlyProvides': directlyProvides,
                 'alsoProvides': alsoProvides,
                 'noLongerProvides': noLongerProvides}[op]
            return f(o[a['t']], *[o[i] for i in a['ifs']])
        if op == 'setProvides':
            t = o[a['t']]
            k = a['kind']
            if k == 'del':
                del t.__provides__
            elif k == 'otherProvides':
                t.__provides__ = Provides(o['K3'], o['I2'])
            else:
                t.__provides__ = {'None': None, 'str': 'str', 'int': 42}[k]
            return None
        if op in ('providedBy', 'implementedBy', 'directlyProvidedBy'):
            f = {'providedBy': providedBy, 'implementedBy': implementedBy,
                 'directlyProvidedBy': directlyProvidedBy}[op]
            r = f(o[a['x']])
            return [r, list(r)]
        if op == 'I.providedBy':
            return o[a['i']].providedBy(o[a['x']])
        if op == 'I.implementedBy':
            return o[a['i']].implementedBy(o[a['x']])
        if op in ('isOrExtends', 'extends', 'extendsNonStrict', 'sro', 'iro',
                  'specNames', 'interfaces', 'contains'):
            s = self.spec(a['s'])
            t = self.spec(a['t']) if not a['t'].startswith('x_') \
                else o[a['t']]
            if op == 'isOrExtends':
                return s.isOrExtends(t)
            if op == 'extends':
                return s.extends(t)
            if op == 'extendsNonStrict':
                return s.extends(t, False)
            if op == 'sro':
                return list(s.__sro__)
            if op == 'iro':
                return list(s.__iro__)
            if op == 'specNames':
                return sorted(s.names(all=True)) if hasattr(s, 'names') \
                    else 'nonames'
            if op == 'interfaces':
                return list(s.interfaces())
            return t in s
        if op == 'setHooks':
            hooks = zi_interface.adapter_hooks
            h = a['h']
            if h == 'none':
                hooks[:] = []
            elif h in ('g1', 'g3'):
                hooks[:] = [self.g[int(h[1])].adapter_hook]
            elif h == 'retNone_then_val':
                hooks[:] = [lambda i, x: None,
                            lambda i, x: ('hooked', i.__name__)]
            elif h == 'nested_then_val':
                def nested(i, x, depth=[0]):
                    if depth[0]:
                        return None
                    depth[0] += 1
                    try:
                        other = o['I3'] if i is not o['I3'] else o['I1']
                        other(x, None)      # re-enters the hook loop
                    finally:
                        depth[0] -= 1
                    return None
                hooks[:] = [nested, lambda i, x: ('hooked', i.__name__)]
            else:
                def bad(i, x):
                    raise LookupError('hook')
                hooks[:] = [bad]
            return None
        if op in ('call', 'callAlt', 'callAltNone', 'adapt'):
            I = o[a['i']]
            x = o[a['x']]
            if op == 'call':
                return I(x)
            if op == 'callAlt':
                return I(x, DEFAULT)
            if op == 'callAltNone':
                return I(x, None)
            return I.__adapt__(x)
        if op == 'cmp':
            x = self.cmpop(a['a'])
            y = self.cmpop(a['b'])
            import operator
            return getattr(operator, a['o'])(x, y)
        if op == 'hashEq':
            x = self.cmpop(a['a'])
            y = self.cmpop(a['b'])
            return [hash(x) == hash(y), x == y, x != y, x in {y: 1},
                    x in [y]]
        if op == 'sorted':
            items = [o['I4'], o['I1'], implementedBy(o['K2']), o['I3'],
                     Interface, o['I2'], implementedBy(o['K1'])]
            return sorted(items)
        if op == 'rename':
            x, y = o[a['a']], o[a['b']]
            x.__name__ = y.__name__          # same module already
            return [x == y, hash(x) == hash(y), x != y, x < y, x <= y]
        g = self.g.get(a.get('g'))
        if op == 'register':
            return g.register(self.req(a['req']), o[a['prov']],
                              self.name(a['name']), self.v[a['val']])
        if op == 'unregister':
            extra = () if a['val'] == 'novalue' else (self.v[a['val']],)
            return g.unregister(self.req(a['req']), o[a['prov']],
                                self.name(a['name']), *extra)
        if op == 'subscribe':
            return g.subscribe(self.req(a['req']), o[a['prov']],
                               self.v[a['val']])
        if op == 'unsubscribe':
            extra = () if a['val'] == 'novalue' else (self.v[a['val']],)
            return g.unsubscribe(self.req(a['req']), o[a['prov']], *extra)
        if op == 'setRegBases':
            g.__bases__ = tuple(self.g[b] for b in a['nb'])
            return None
        if op == 'rebuild':
            return g.rebuild()
        if op == 'setSpecBases':
            o[a['s']].__bases__ = tuple(o[b] for b in a['nb']) or \
                (Interface,)
            return None
        if op in ('lookup', 'lookupList', 'lookup1', 'registered'):
            P = o[a['prov']]
            nm = self.name(a['name'])
            if op == 'lookup':
                return g.lookup(tuple(self.req(a['req'])), P, nm,
                                *self.default(a['default']))
            if op == 'lookupList':
                return g.lookup(LazySeq(self.req(a['req'])), P, nm,
                                *self.default(a['default']))
            if op == 'lookup1':
                return g.lookup1(self.req(a['req'])[0], P, nm,
                                 *self.default(a['default']))
            return g.registered(self.req(a['req']), P, nm)
        if op in ('lookupAll', 'names', 'subscriptions', 'allRegistrations',
                  'allSubscriptions'):
            P = o[a['prov']]
            rq = tuple(self.req(a['req']))
            if op == 'lookupAll':
                return sorted(g.lookupAll(rq, P), key=lambda t: t[0])
            if op == 'names':
                return sorted(g.names(rq, P))
            if op == 'subscriptions':
                return list(g.subscriptions(rq, P))
            if op == 'allRegistrations':
                return sorted(g.allRegistrations(),
                              key=lambda t: repr(self.canon(t)))
            return sorted(g.allSubscriptions(),
                          key=lambda t: repr(self.canon(t)))
        if op in ('queryAdapterOf', 'adapterHookOf', 'queryMultiOf',
                  'subscribersOf'):
            # object-based entry points on an object providing exactly the
            # looked-up specifications
            P = o[a['prov']]
            nm = self.name(a['name'])
            objs = []
            for s in self.req(a['req']):
                c = types.SimpleNamespace()
                c.__providedBy__ = s
                objs.append(c)
                self.names[id(c)] = ('carrier', c)
            self.keep = objs
            d = self.default(a['default'])
            if op == 'queryAdapterOf':
                if len(objs) != 1:
                    return 'n/a'
                return g.queryAdapter(objs[0], P, nm, *d)
            if op == 'adapterHookOf':
                if len(objs) != 1:
                    return 'n/a'
                return g.adapter_hook(P, objs[0], nm, *d)
            if op == 'queryMultiOf':
                return g.queryMultiAdapter(objs, P, nm, *d)
            return g.subscribers(objs, P)
        if op in ('queryAdapterKw', 'adapterHookKw', 'queryMulti1Kw',
                  'lookupKw', 'lookup1Kw'):
            P = o[a['prov']]
            nm = self.name(a['name'])
            x = o[a['x']]
            kw = {} if a['default'] == 'nodefault' else {'default': DEFAULT}
            if op == 'queryAdapterKw':
                return g.queryAdapter(object=x, provided=P, name=nm, **kw)
            if op == 'adapterHookKw':
                return g.adapter_hook(provided=P, object=x, name=nm, **kw)
            if op == 'queryMulti1Kw':
                return g.queryMultiAdapter(objects=(x,), provided=P, name=nm,
                                           **kw)
            spec = providedBy(x)
            if op == 'lookupKw':
                return g.lookup(required=(spec,), provided=P, name=nm, **kw)
            return g.lookup1(required=spec, provided=P, name=nm, **kw)
        if op in ('queryAdapter', 'adapter_hook', 'queryMulti1',
                  'subscribers1'):
            P = o[a['prov']]
            nm = self.name(a['name'])
            x = o[a['x']]
            d = self.default(a['default'])
            if op == 'queryAdapter':
                return g.queryAdapter(x, P, nm, *d)
            if op == 'adapter_hook':
                return g.adapter_hook(P, x, nm, *d)
            if op == 'queryMulti1':
                return g.queryMultiAdapter((x,), P, nm, *d)
            return g.subscribers((x,), P)
        if op in ('queryMulti2', 'subscribers2'):
            P = o[a['prov']]
            x, y = o[a['x']], o[a['y']]
            if op == 'queryMulti2':
                if P is None:
                    return 'n/a'
                return g.queryMultiAdapter((x, y), P, '',
                                           *self.default(a['default']))
            return g.subscribers((x, y), P)
        if op == 'badRequired':
            r = a['req']
            if r.startswith('lazy:'):
                rq = LazySeq([o[r[5:]]])
            elif r.startswith('gen:'):
                rq = (s for s in [o[r[4:]]])
            else:
                rq = o[r]
            P = o[a['prov']]
            f = a['f']
            if f == 'lookup':
                return g.lookup(rq, P, '', DEFAULT)
            if f == 'lookupAll':
                return sorted(g.lookupAll(rq, P), key=lambda t: t[0])
            if f == 'subscriptions':
                return list(g.subscriptions(rq, P))
            if f == 'register':
                return g.register(rq, P, '', self.v['v1'])
            return g.subscribe(rq, P, self.v['v1'])
        raise ValueError('unknown op %r' % (op,))

    def cmpop(self, s):
        if s.startswith('impl:'):
            return implementedBy(self.o[s[5:]])
        return self.o[s]


traces = []
for prog in job['programs']:
    w = World()
    tr = []
    try:
        for a in prog:
            tr.append(w.run(a))
    finally:
        w.close()
    traces.append(tr)
    del w
    gc.collect()

childlib.done({'impl': impl, 'traces': traces})
