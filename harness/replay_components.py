"""Child: replays Components.tla behaviours into a real
zope.interface.registry.Components and compares, after the steps that carry
an expectation, the four listings, every query, the events passed to
zope.interface.registry.notify, the return value and the
rebuildUtilityRegistryFromLocalCache() probe with what TLC computed.

job = {"cases": [{"steps": [{"act": {...}, "ev": [...], "ret": int,
                              "obs": {...} | absent}, ...]}, ...],
       "guard": bool}

Universe (ids as in spec/Components.tla):
  components 1 c1a, 2 c1b (hashable, equal, distinct), 3 u1a, 4 u1b
  (dict subclasses: unhashable, equal, distinct), 5 c2; FU() returns c2;
  provided 1 PA, 2 PB(PA); required 1 R1, 2 R2(R1), objects o1, o2 providing
  exactly R1 / R2; factories 1 f1a, 2 f1b (equal, distinct), 3 f2.
"""
import childlib
impl = childlib.boot()

import json
import traceback

import zope.interface.registry as registry_module
from zope.interface import implementer
from zope.interface.adapter import AdapterRegistry
from zope.interface.interface import InterfaceClass
from zope.interface.interfaces import (ComponentLookupError, Registered,
                                       Unregistered)
from zope.interface.registry import (AdapterRegistration, Components,
                                     HandlerRegistration,
                                     SubscriptionRegistration,
                                     UtilityRegistration)

job = childlib.job()
evaluations = 0
mismatches = []
guard_failures = []
guarded_listings = set()
NAMES = ['', 'n', 'm']


def mism(ctx, what, expected, got):
    if len(mismatches) < 60:
        mismatches.append({'ctx': ctx, 'what': what, 'expected': expected,
                           'got': got, 'impl': impl, 'case_idx': childlib.CASE[0]})


class HC:
    """hashable component with controlled equality"""

    def __init__(self, cid, eq):
        self.cid = cid
        self.eq = eq

    def __eq__(self, other):
        return isinstance(other, HC) and other.eq == self.eq

    def __ne__(self, other):
        return not self.__eq__(other)

    def __hash__(self):
        return hash(('HC', self.eq))

    def __bool__(self):
        # utilities may be falsy objects (0, '', empty containers)
        return self.cid % 2 == 0

    def __repr__(self):
        return 'c%d' % self.cid


class UC(dict):
    """unhashable component: dict equality, no hash"""

    def __repr__(self):
        return 'u%d' % self.cid


class Result:
    def __init__(self, fid, args):
        self.fid = fid
        self.args = args


class F:
    """adapter / subscriber / handler factory with controlled equality"""

    def __init__(self, fid, eq, world):
        self.fid = fid
        self.eq = eq
        self.world = world
        self.__name__ = 'f%d' % fid

    def __call__(self, *args):
        self.world.calls.append((self.fid, args))
        return Result(self.fid, args)

    def __eq__(self, other):
        return isinstance(other, F) and other.eq == self.eq

    def __ne__(self, other):
        return not self.__eq__(other)

    def __hash__(self):
        return hash(('F', self.eq))

    def __repr__(self):
        return 'f%d' % self.fid


class Universe:
    """the interfaces and the objects that are adapted; shared by a batch of
    worlds (nothing in a history changes them), renewed every 400 cases"""
    serial = 0

    def __init__(self):
        Universe.serial += 1
        mod = 'compworld%d' % Universe.serial
        PA = InterfaceClass('PA', (), __module__=mod)
        PB = InterfaceClass('PB', (PA,), __module__=mod)
        R1 = InterfaceClass('R1', (), __module__=mod)
        R2 = InterfaceClass('R2', (R1,), __module__=mod)
        self.prov = {1: PA, 2: PB}
        self.req = {1: R1, 2: R2}

        @implementer(R1)
        class K1:
            pass

        @implementer(R2)
        class K2:
            pass
        self.ob = {1: K1(), 2: K2()}
        self.uses = 0


class World:
    serial = 0
    universe = None

    def __init__(self):
        World.serial += 1
        u = World.universe
        if u is None or u.uses >= 400:
            u = World.universe = Universe()
        u.uses += 1
        self.prov, self.req, self.ob = u.prov, u.req, u.ob
        u3, u4 = UC(k=1), UC(k=1)
        u3.cid, u4.cid = 3, 4
        self.comp = {1: HC(1, 1), 2: HC(2, 1), 3: u3, 4: u4, 5: HC(5, 5)}
        assert self.comp[1] == self.comp[2] and u3 == u4 and u3 is not u4
        c2 = self.comp[5]
        self.FU = lambda: c2
        self.fact = {1: F(1, 1, self), 2: F(2, 1, self), 3: F(3, 3, self)}
        self.calls = []
        self.C = Components('w%d' % World.serial)
        self.events = []

    # ---- identity -> id
    def cid(self, x):
        if x is None:
            return 0
        for k, v in self.comp.items():
            if v is x:
                return k
        return 'foreign:%r' % (x,)

    def fid(self, x):
        if x is None:
            return 0
        for k, v in self.fact.items():
            if v is x:
                return k
        return 'foreign:%r' % (x,)

    def pid(self, x):
        if x is None:
            return 0
        for k, v in self.prov.items():
            if v is x:
                return k
        return 'foreign:%r' % (x,)

    def rid(self, x):
        if isinstance(x, tuple) and len(x) == 1:
            for k, v in self.req.items():
                if v is x[0]:
                    return k
        return 'foreign:%r' % (x,)

    def ufac(self, x):
        if x is None:
            return 0
        if x is self.FU:
            return 1
        return 'foreign:%r' % (x,)

    # ---- calls
    def call(self, a):
        """perform the call; returns (events, ret) in the spec's encoding"""
        C = self.C
        op = a['op']
        P = self.prov.get(a['p'])
        R = (self.req[a['r']],) if a['r'] else None
        f = self.fact.get(a['f'])
        del self.events[:]
        saved = registry_module.notify
        registry_module.notify = self.events.append
        try:
            try:
                if op == 'registerUtility':
                    if a['fac']:
                        r = C.registerUtility(factory=self.FU, provided=P,
                                              name=a['n'], info=a['i'],
                                              event=a['ev'])
                    else:
                        r = C.registerUtility(self.comp[a['c']], P, a['n'],
                                              a['i'], a['ev'])
                elif op == 'unregisterUtility':
                    if a['fac']:
                        r = C.unregisterUtility(factory=self.FU, provided=P,
                                                name=a['n'])
                    elif a['c']:
                        r = C.unregisterUtility(self.comp[a['c']], P, a['n'])
                    else:
                        r = C.unregisterUtility(provided=P, name=a['n'])
                elif op == 'registerAdapter':
                    r = C.registerAdapter(f, R, P, a['n'], a['i'], a['ev'])
                elif op == 'unregisterAdapter':
                    r = C.unregisterAdapter(f, R, P, a['n'])
                elif op == 'registerSubscriptionAdapter':
                    r = C.registerSubscriptionAdapter(f, R, P, info=a['i'],
                                                      event=a['ev'])
                elif op == 'unregisterSubscriptionAdapter':
                    r = C.unregisterSubscriptionAdapter(f, R, P)
                elif op == 'registerHandler':
                    r = C.registerHandler(f, R, info=a['i'], event=a['ev'])
                elif op == 'unregisterHandler':
                    r = C.unregisterHandler(f, R)
                elif op == 'reinit':
                    r = C.__init__(C.__name__)
                elif op == 'dropcache':
                    # what unpickling / ghosting does to a _v_ attribute
                    C._v_utility_registrations_cache = None
                    r = None
                else:
                    raise RuntimeError('unknown op %r' % (op,))
            except Exception as e:
                return (['EXC'], 'EXC %s: %s' % (type(e).__name__, e))
        finally:
            registry_module.notify = saved
        if r is None:
            ret = -1
        elif r is True:
            ret = 1
        elif r is False:
            ret = 0
        else:
            ret = 'value:%r' % (r,)
        return [self.event(e) for e in self.events], ret

    def event(self, e):
        if type(e) is Registered:
            k = 'R'
        elif type(e) is Unregistered:
            k = 'U'
        else:
            return {'k': 'foreign:%r' % (e,)}
        reg = e.object
        ok = '' if reg.registry is self.C else '!registry'
        if type(reg) is UtilityRegistration:
            return {'k': k, 't': 'u' + ok, 'r': 0, 'p': self.pid(reg.provided),
                    'n': reg.name, 'o': self.cid(reg.component),
                    'i': reg.info, 'f': self.ufac(reg.factory)}
        if type(reg) is HandlerRegistration:
            return {'k': k, 't': 'h' + ok, 'r': self.rid(reg.required),
                    'p': self.pid(reg.provided), 'n': reg.name,
                    'o': self.fid(reg.handler), 'i': reg.info, 'f': 0}
        if type(reg) in (AdapterRegistration, SubscriptionRegistration):
            t = 'a' if type(reg) is AdapterRegistration else 's'
            return {'k': k, 't': t + ok, 'r': self.rid(reg.required),
                    'p': self.pid(reg.provided), 'n': reg.name,
                    'o': self.fid(reg.factory), 'i': reg.info, 'f': 0}
        return {'k': k, 't': 'foreign:%r' % (reg,)}

    # ---- observation
    def listings(self):
        C = self.C
        out = {}

        def guarded(name, fn):
            try:
                out[name] = sorted(fn(), key=repr)
            except Exception as e:
                out[name] = 'EXC %s: %s' % (type(e).__name__, e)
        guarded('ureg', lambda: [
            [self.pid(r.provided), r.name, self.cid(r.component), r.info,
             self.ufac(r.factory)] + ([] if r.registry is C else ['!reg'])
            for r in C.registeredUtilities()])
        guarded('areg', lambda: [
            [self.rid(r.required), self.pid(r.provided), r.name,
             self.fid(r.factory), r.info] +
            ([] if r.registry is C and type(r) is AdapterRegistration
             else ['!reg'])
            for r in C.registeredAdapters()])
        guarded('sreg', lambda: [
            [self.rid(r.required), self.pid(r.provided), self.fid(r.factory),
             r.info] + ([] if r.registry is C and r.name == '' and
                        type(r) is SubscriptionRegistration else ['!reg'])
            for r in C.registeredSubscriptionAdapters()])
        guarded('hreg', lambda: [
            [self.rid(r.required), self.fid(r.handler), r.info] +
            ([] if r.registry is C and r.name == '' and r.provided is None
             and type(r) is HandlerRegistration else ['!reg'])
            for r in C.registeredHandlers()])
        return out

    def queries(self, eqrep, q):
        """q: object with the query entry points (the Components itself, or
        the guard's registries populated from the listing)"""
        out = {}

        def guarded(fn):
            try:
                return fn()
            except Exception as e:
                return 'EXC %s: %s' % (type(e).__name__, e)

        def bag(ids, n, classify=None):
            cnt = [0] * n
            for i in ids:
                if not isinstance(i, int) or not 1 <= i <= n:
                    return 'foreign:%r' % (ids,)
                cnt[(classify[i - 1] if classify else i) - 1] += 1
            return cnt

        def res(x, o):
            if x is None:
                return 0
            if not isinstance(x, Result):
                return 'foreign:%r' % (x,)
            if len(x.args) != 1 or x.args[0] is not o:
                return 'wrongargs:%r' % (x.args,)
            return x.fid

        out['qU'] = [{n: guarded(lambda: self.cid(q.queryUtility(P, n)))
                      for n in NAMES} for P in (self.prov[1], self.prov[2])]

        def getu(P, n):
            try:
                return self.cid(q.getUtility(P, n))
            except ComponentLookupError:
                return 0
        out['gU'] = [{n: guarded(lambda: getu(P, n)) for n in NAMES}
                     for P in (self.prov[1], self.prov[2])]
        out['allU'] = [guarded(lambda: sorted(
            [n, self.cid(c)] for n, c in q.getUtilitiesFor(P)))
            for P in (self.prov[1], self.prov[2])]
        out['subU'] = [guarded(lambda: bag(
            [self.cid(c) for c in q.getAllUtilitiesRegisteredFor(P)], 5,
            eqrep)) for P in (self.prov[1], self.prov[2])]
        out['qA'] = [[{n: guarded(lambda: res(
            q.queryAdapter(self.ob[r], P, n), self.ob[r])) for n in NAMES}
            for P in (self.prov[1], self.prov[2])] for r in (1, 2)]
        out['subA'] = [[guarded(lambda: bag(
            [res(x, self.ob[r]) for x in q.subscribers((self.ob[r],), P)],
            3)) for P in (self.prov[1], self.prov[2])] for r in (1, 2)]

        def handle(r):
            del self.calls[:]
            q.handle(self.ob[r])
            got = list(self.calls)
            del self.calls[:]
            for fid, args in got:
                if len(args) != 1 or args[0] is not self.ob[r]:
                    return 'wrongargs:%r' % (got,)
            return bag([fid for fid, _ in got], 3)
        out['hnd'] = [guarded(lambda: handle(r)) for r in (1, 2)]
        return out


class Populated:
    """'the underlying registries populated with exactly those
    registrations': fresh adapter registries filled from the SPEC's listing,
    queried through the calls Components' query methods are documented to
    delegate to.  Used only to cross-check the specification's expected
    answers (a disagreement is a machinery error, not a violation)."""

    def __init__(self, w, obs):
        self.utilities = AdapterRegistry()
        self.adapters = AdapterRegistry()
        seen = set()
        for o in obs['ureg']:
            P = w.prov[o['p']]
            self.utilities.register((), P, o['n'], w.comp[o['c']])
            key = (o['p'], obs['eqrep'][o['c'] - 1])
            if key not in seen:
                seen.add(key)
                self.utilities.subscribe((), P, w.comp[o['c']])
        for o in obs['areg']:
            self.adapters.register((w.req[o['r']],), w.prov[o['p']], o['n'],
                                   w.fact[o['f']])
        for o in obs['sreg']:
            self.adapters.subscribe((w.req[o['r']],), w.prov[o['p']],
                                    w.fact[o['f']])
        for o in obs['hreg']:
            self.adapters.subscribe((w.req[o['r']],), None, w.fact[o['f']])

    def queryUtility(self, P, n):
        return self.utilities.lookup((), P, n)

    def getUtility(self, P, n):
        u = self.utilities.lookup((), P, n)
        if u is None:
            raise ComponentLookupError(P, n)
        return u

    def getUtilitiesFor(self, P):
        return self.utilities.lookupAll((), P)

    def getAllUtilitiesRegisteredFor(self, P):
        return self.utilities.subscriptions((), P)

    def queryAdapter(self, ob, P, n):
        return self.adapters.queryAdapter(ob, P, n)

    def subscribers(self, obs, P):
        return self.adapters.subscribers(obs, P)

    def handle(self, *obs):
        self.adapters.subscribers(obs, None)


def expected_queries(obs):
    exp = {k: obs[k] for k in ('qU', 'subU', 'qA', 'subA', 'hnd')}
    exp['gU'] = obs['qU']
    exp['allU'] = [sorted([n, c] for n, c in d.items() if c != 0)
                   for d in obs['qU']]
    return exp


def expected_listings(obs):
    return {
        'ureg': sorted(([o['p'], o['n'], o['c'], o['i'], o['f']]
                        for o in obs['ureg']), key=repr),
        'areg': sorted(([o['r'], o['p'], o['n'], o['f'], o['i']]
                        for o in obs['areg']), key=repr),
        'sreg': sorted(([o['r'], o['p'], o['f'], o['i']]
                        for o in obs['sreg']), key=repr),
        'hreg': sorted(([o['r'], o['f'], o['i']] for o in obs['hreg']),
                       key=repr)}


def compare(ctx, prefix, exp, got):
    global evaluations
    for k in exp:
        evaluations += 1
        if exp[k] != got.get(k):
            mism(ctx, prefix + k, exp[k], got.get(k))


def events_match(exp, got):
    if len(exp) != len(got):
        return False
    for e, g in zip(exp, got):
        if not isinstance(g, dict) or set(g) != set(e):
            return False
        for k in e:
            if k == 'o':
                if g['o'] not in e['o']:
                    return False
            elif e[k] != g[k]:
                return False
    return True


def run_case(case):
    global evaluations
    w = World()
    hist = []
    for step in case['steps']:
        a = step['act']
        hist.append({k: v for k, v in a.items()
                     if k in ('op', 'n') or (k == 'ev' and v is False) or
                     (k != 'ev' and v not in (0, ''))})
        ctx = {'history': list(hist)}
        evs, ret = w.call(a)
        if 'ev' in step:
            evaluations += 2
            if not events_match(step['ev'], evs):
                mism(ctx, 'events', step['ev'], evs)
            if step['ret'] != ret:
                mism(ctx, 'return value', step['ret'], ret)
        obs = step.get('obs')
        if not obs:
            continue
        exp_l = expected_listings(obs)
        exp_q = expected_queries(obs)
        got_l = w.listings()
        got_q = w.queries(obs['eqrep'], w.C)
        compare(ctx, 'listing ', exp_l, got_l)
        compare(ctx, 'query ', exp_q, got_q)
        # the consistency probe: finds nothing, changes nothing, emits nothing
        del w.events[:]
        saved = registry_module.notify
        registry_module.notify = w.events.append
        try:
            try:
                rb = w.C.rebuildUtilityRegistryFromLocalCache()
            except Exception as e:
                rb = 'EXC %s: %s' % (type(e).__name__, e)
        finally:
            registry_module.notify = saved
        evaluations += 1
        if rb != obs['rebuild']:
            mism(ctx, 'rebuildUtilityRegistryFromLocalCache()',
                 obs['rebuild'], rb)
        if w.events:
            mism(ctx, 'events during rebuild probe', [],
                 [w.event(e) for e in w.events])
        compare(ctx, 'after rebuild probe: listing ', exp_l, w.listings())
        compare(ctx, 'after rebuild probe: query ', exp_q,
                w.queries(obs['eqrep'], w.C))
        gkey = json.dumps(exp_l, sort_keys=True)
        if job.get('guard') and gkey not in guarded_listings:
            guarded_listings.add(gkey)
            try:
                g = w.queries(obs['eqrep'], Populated(w, obs))
            except Exception:
                g = {'error': traceback.format_exc()[-800:]}
            for k in exp_q:
                if exp_q[k] != g.get(k) and len(guard_failures) < 10:
                    guard_failures.append({'what': k, 'spec': exp_q[k],
                                           'populated': g.get(k),
                                           'listing': exp_l})


for childlib.CASE[0], case in enumerate(job['cases']):
    try:
        run_case(case)
    except Exception:
        mism({'case': case['steps'][-1]['act']}, 'harness exception', None,
             traceback.format_exc()[-1500:])

childlib.done({'impl': impl, 'evaluations': evaluations,
               'mismatches': mismatches, 'guard_failures': guard_failures,
               'cases': len(job['cases'])})
