"""Child: replays the cases dumped by MC_Signatures (C17 / C18) into the real
zope.interface and compares what the code shows with what the specification
expects.  Expected values come from the dump only; this file renders the
spec's parameter lists as Python source, runs the code and compares.

job = {"mode": "c18" | "pairs" | "agg", "cases": [Obs record, ...]}
result = {"evaluations": n, "mismatches": [...], "guard_failures": [...]}

Guards (a disagreement means the SPECIFICATION's model of Python is wrong and
is reported as a machinery failure, never as a violation):
  * co_varnames / co_argcount / co_kwonlyargcount / __defaults__ of the
    exec'ed function equal the spec's Layout / Code;
  * inspect.signature of the function (of the bound method where the case is
    about a method) equals the spec's Truth;
  * inspect.signature(impl).bind on every admitted call shape equals the
    spec's Binds.
"""
import childlib
impl = childlib.boot()

import inspect

from zope.interface import Interface, implementer, directlyProvides  # noqa
from zope.interface.common import ABCInterface  # noqa
from zope.interface.document import asStructuredText
from zope.interface.exceptions import BrokenImplementation
from zope.interface.exceptions import BrokenMethodImplementation
from zope.interface.exceptions import DoesNotImplement
from zope.interface.exceptions import Invalid
from zope.interface.exceptions import MultipleInvalid
from zope.interface.interface import fromFunction, fromMethod
from zope.interface.verify import verifyClass, verifyObject

job = childlib.job()
MODE = job['mode']
NONE = '<None>'
evaluations = 0
mismatches = []
guard_failures = []
serial = [0]


def unnone(x):
    return None if x == NONE else x


# --------------------------------------------------------------------------
# rendering the spec's parameter list as source text

def dv(d):
    """world mapping: the spec's default-value identifiers (integers) stand
    for real Python objects of several types (the description must report
    and render whatever object the default is)"""
    k = d % 5
    if k == 0:
        return d
    if k == 1:
        return (d,)
    if k == 2:
        return ()
    if k == 3:
        return ('s', d)
    return 'x%d' % d


def dv_sigstr(s):
    import re
    return re.sub(r'=(\d+)', lambda m: '=' + repr(dv(int(m.group(1)))), s)


def render_params(params):
    parts = []
    has_va = any(p['kind'] == 'va' for p in params)
    star = False
    n = len(params)
    for i, p in enumerate(params):
        k = p['kind']
        if k == 'ko' and not has_va and not star:
            parts.append('*')
            star = True
        if k == 'va':
            parts.append('*' + p['name'])
        elif k == 'kw':
            parts.append('**' + p['name'])
        elif p['dflt'] != -1:
            parts.append('%s=%r' % (p['name'], dv(p['dflt'])))
        else:
            parts.append(p['name'])
        if k == 'po' and (i + 1 == n or params[i + 1]['kind'] != 'po'):
            parts.append('/')
    return ', '.join(parts)


def render_def(name, params, nlocals=0, indent=''):
    lines = ['%sdef %s(%s):' % (indent, name, render_params(params)),
             "%s    'doc of %s'" % (indent, name)]
    for j in range(1, nlocals + 1):
        lines.append('%s    loc%d = None' % (indent, j))
    return '\n'.join(lines) + '\n'


def namespace():
    # interfaces are equal iff (name, module) are equal: one module per case
    serial[0] += 1
    import abc
    return {'__name__': 'verifsig_%s_%d' % (impl, serial[0]),
            'Interface': Interface, 'ABCInterface': ABCInterface,
            'implementer': implementer, 'abc': abc}


current = [None]


def mismatch(what, expected, got, ctx):
    # 'case' makes the record self-contained: check_signatures.py --replay
    mismatches.append({'impl': impl, 'case_idx': childlib.CASE[0], 'what': what, 'expected': expected,
                       'got': got, 'ctx': ctx, 'mode': MODE,
                       'case': current[0]})


# --------------------------------------------------------------------------
# C18

def info_from_inspect(sig):
    pos, req, opt = [], [], {}
    va = kw = None
    P = inspect.Parameter
    for p in sig.parameters.values():
        if p.kind in (P.POSITIONAL_ONLY, P.POSITIONAL_OR_KEYWORD):
            pos.append(p.name)
            if p.default is P.empty:
                req.append(p.name)
            else:
                opt[p.name] = p.default
        elif p.kind == P.VAR_POSITIONAL:
            va = p.name
        elif p.kind == P.VAR_KEYWORD:
            kw = p.name
    return {'positional': pos, 'required': req, 'optional': opt,
            'varargs': va, 'kwargs': kw}


def expected_info(e):
    return {'positional': list(e['positional']),
            'required': list(e['required']),
            'optional': {k: dv(v) for k, v in e['optional']},
            'varargs': unnone(e['varargs']), 'kwargs': unnone(e['kwargs'])}


def observed_info(method):
    i = method.getSignatureInfo()
    out = {'positional': list(i['positional']),
           'required': list(i['required']),
           'optional': dict(i['optional']),
           'varargs': i['varargs'], 'kwargs': i['kwargs']}
    # the report is the caller's to keep: post-processing it (dropping keys
    # from the returned mapping) must not change what the next call reports
    for k in list(i):
        del i[k]
    j = method.getSignatureInfo()
    again = {'positional': list(j.get('positional', ['<missing>'])),
             'required': list(j.get('required', ['<missing>'])),
             'optional': dict(j.get('optional', {'<missing>': 1})),
             'varargs': j.get('varargs', '<missing>'),
             'kwargs': j.get('kwargs', '<missing>')}
    if again != out:
        out['asked again after the caller emptied the first report'] = again
    return out


def replay_c18(case):
    global evaluations
    params, ctx, nt = case['params'], case['ctx'], case['nt']
    nl = case['sig']['nl']
    exp = expected_info(case['expect'])
    # the values given to function attributes include None and other false
    # objects: every attribute becomes a tagged value, whatever its value
    TV = {'v1': None, 'v2': 0, 'v3': ''}
    case = dict(case, tags=[(k, TV.get(v, v)) for k, v in case['tags']])
    exp_tags = {k: v for k, v in case['tags']}
    src = render_def('m', params, nl)
    tagsrc = ''.join('m.%s = %r\n' % (k, v) for k, v in case['tags'])
    where = {'source': src.split('\n')[0], 'ctx': ctx, 'tags': nt}
    ns = namespace()
    try:
        exec(src + tagsrc, ns)
    except SyntaxError as e:
        guard_failures.append({'what': 'source does not compile', 'src': src,
                               'err': str(e)})
        return
    f = ns['m']
    code = f.__code__
    # guards on the spec's model of the code object
    if list(code.co_varnames) != list(case['layout']):
        guard_failures.append({'what': 'Layout', 'src': src,
                               'spec': case['layout'],
                               'python': list(code.co_varnames)})
        return
    if (code.co_argcount != case['code']['argcount'] or
            code.co_kwonlyargcount != case['code']['kwonly'] or
            list(f.__defaults__ or ()) != [dv(x) for x in
                                           case['code']['defaults']] or
            bool(code.co_flags & inspect.CO_VARARGS) != case['sig']['va'] or
            bool(code.co_flags & inspect.CO_VARKEYWORDS)
            != case['sig']['kw']):
        guard_failures.append({'what': 'Code', 'src': src,
                               'spec': case['code']})
        return
    holder = type('Holder', (object,), {'m': f})
    try:
        truth = info_from_inspect(inspect.signature(
            f if ctx == 'function' else holder().m))
    except ValueError as e:
        guard_failures.append({'what': 'not introspectable', 'src': src,
                               'err': str(e)})
        return
    if truth != exp:
        guard_failures.append({'what': 'Truth', 'src': src, 'ctx': ctx,
                               'spec': exp, 'python': truth})
        return

    routes = []
    if ctx == 'function':
        routes.append(('fromFunction(f)', lambda: fromFunction(f)))
        routes.append(('fromFunction(f, name=)',
                       lambda: fromFunction(f, None, 0, 'other')))

        def by_definition():
            ns2 = namespace()
            body = render_def('m', params, nl, indent='    ')
            body += ''.join('    m.%s = %r\n' % (k, v)
                            for k, v in case['tags'])
            exec('class I(Interface):\n' + body, ns2)
            ns['I'] = ns2['I']
            return ns2['I']['m']
        routes.append(('interface definition', by_definition))
    elif ctx == 'method':
        routes.append(('fromMethod(bound)', lambda: fromMethod(holder().m)))
        routes.append(('fromMethod(function)', lambda: fromMethod(f)))
        routes.append(('fromFunction(f, imlevel=1)',
                       lambda: fromFunction(f, imlevel=1)))
    else:
        def by_abc():
            ns2 = namespace()
            body = render_def('m', params, nl, indent='    ')
            body += ''.join('    m.%s = %r\n' % (k, v)
                            for k, v in case['tags'])
            exec('class Foo(abc.ABC):\n' + body +
                 'class IFoo(ABCInterface):\n    abc = Foo\n', ns2)
            return ns2['IFoo']['m']
        routes.append(('ABCInterface method', by_abc))

    for via, make in routes:
        evaluations += 1
        w = dict(where, via=via)
        try:
            d = make()
            got = observed_info(d)
            gstr = d.getSignatureString()
            gtags = {t: d.getTaggedValue(t) for t in d.getTaggedValueTags()}
        except Exception as e:     # the code under test failed
            mismatch('describe raised', exp, 'raised %r' % (e,), w)
            continue
        if got != exp:
            mismatch('getSignatureInfo', exp, got, w)
        if gstr != dv_sigstr(case['sigstr']):
            mismatch('getSignatureString', dv_sigstr(case['sigstr']), gstr,
                     w)
        if gtags != exp_tags:
            mismatch('tagged values', exp_tags, gtags, w)
        # function attributes BECOME tagged values (a copy): tagging the
        # description must not write back to the function, nor show on
        # another description of the same function
        if via.startswith('fromFunction(f)') or via.startswith('fromMethod'):
            before = dict(f.__dict__)
            try:
                d.setTaggedValue('zz_verif', 1)
                d2 = make()
                leaked = 'zz_verif' in d2.getTaggedValueTags()
            except Exception as e:     # noqa
                leaked = 'raised %r' % (e,)
            if dict(f.__dict__) != before or leaked:
                mismatch('tagged values are shared with the function',
                         {'function attributes': sorted(before),
                          'second description has the tag': False},
                         {'function attributes': sorted(f.__dict__),
                          'second description has the tag': leaked}, w)
                f.__dict__.pop('zz_verif', None)
        if via == 'interface definition':
            try:
                text = asStructuredText(ns['I'])
            except Exception as e:
                mismatch('asStructuredText raised', dv_sigstr(case['sigstr']),
                         'raised %r' % (e,), w)
                continue
            line = 'm%s -- doc of m' % dv_sigstr(case['sigstr'])
            if line not in text:
                mismatch('asStructuredText', line, text, w)


# --------------------------------------------------------------------------
# C17

def key_of(iface, desc):
    """the name the interface lists this description under (its own
    __name__ may differ: one-word Attribute(...) arguments, aliases)"""
    if isinstance(desc, str):
        return desc
    try:
        for k, d in iface.namesAndDescriptions(all=True):
            if d is desc:
                return k
    except Exception:       # noqa
        pass
    return desc.getName()


def exc_key(e):
    if isinstance(e, BrokenMethodImplementation):
        return [type(e).__name__, key_of(e.interface, e.method)]
    if isinstance(e, BrokenImplementation):
        return [type(e).__name__, key_of(e.interface, e.name)]
    if isinstance(e, DoesNotImplement):
        return [type(e).__name__, '']
    return [type(e).__name__, str(e)]


def run_verify(fut, iface, cand, tent):
    try:
        r = fut(iface, cand, tentative=tent)
    except MultipleInvalid as e:
        ex = sorted(exc_key(x) for x in e.exceptions)
        return {'res': 'Multiple', 'n': len(ex), 'excs': ex}
    except Invalid as e:
        return {'res': 'Single', 'n': 1, 'excs': [exc_key(e)]}
    except Exception as e:       # anything else is the code failing
        return {'res': 'Raised', 'n': 0, 'excs': [[type(e).__name__,
                                                   str(e)]]}
    if not r:
        return {'res': 'Falsy', 'n': 0, 'excs': [[repr(r), '']]}
    return {'res': 'Ok', 'n': 0, 'excs': []}


def expected_outcome(e):
    return {'res': e['res'], 'n': e['n'],
            'excs': sorted([list(x) for x in e['excs']])}


def guard_binds(attr, shapes, with_self, src):
    """Python's own binding rule against the spec's Binds."""
    try:
        sig = inspect.signature(attr, follow_wrapped=False)
    except (ValueError, TypeError) as e:
        guard_failures.append({'what': 'not introspectable', 'src': src,
                               'err': str(e)})
        return False
    for sh in shapes:
        args = list(range(sh['npos']))
        if with_self:
            args.insert(0, 'self')
        kws = {'zz_unknown%d' % i: i for i in range(sh['nkw'])}
        try:
            sig.bind(*args, **kws)
            ok = True
        except TypeError:
            ok = False
        if ok != sh['binds']:
            guard_failures.append({'what': 'Binds', 'src': src, 'shape': sh,
                                   'python': ok})
            return False
    return True


def replay_pair(case):
    global evaluations
    kind, tent = case['kind'], case['tent']
    factory = kind == 'cfunc'
    if factory:
        # built like a function attribute of an instance; the candidate is a
        # factory FUNCTION declared with implementer() and given to
        # verifyClass
        kind = 'func'
    ns = namespace()
    isrc = render_def('m', case['iparams'], indent='    ')
    msrc = render_def('m', case['mparams'],
                      indent='' if kind == 'func' else '    ')
    PAIR_SERIAL[0] += 1
    head = 'class I(Interface):\n'
    if PAIR_SERIAL[0] % 2:
        # the interface RE-DEFINES a method of its base with another
        # signature: only the most specific definition counts
        head = ('class I0(Interface):\n    def m(q1, q2, q3, q4, q5, q6):\n'
                '        pass\n    def m0(*args, **kw):\n        pass\n'
                'class I(I0):\n    def m0(*args, **kw):\n        pass\n')
        msrc_extra = ('%sdef m0(%s*args, **kw):\n%s    pass\n' % (
            '' if kind == 'func' else '    ',
            '' if kind == 'func' else 'self, ',
            '' if kind == 'func' else '    '))
    else:
        msrc_extra = ''
    if kind == 'func':
        src = (head + isrc +
               '@implementer(I)\nclass C(object):\n    pass\n' + msrc +
               msrc_extra + 'ob = C()\nob.m = m\n' +
               ('ob.m0 = m0\n' if msrc_extra else ''))
    else:
        src = (head + isrc +
               '@implementer(I)\nclass C(object):\n' + msrc + msrc_extra +
               'ob = C()\n')
    exec(src, ns)
    I, C, ob = ns['I'], ns['C'], ns['ob']
    if PAIR_SERIAL[0] % 4 >= 2:
        # the implementation is a DECORATED function: it carries, as
        # functools.wraps leaves it, a reference to the function it wraps,
        # whose signature is another one.  What counts is the callable the
        # callers get.
        def wrapped_original(self, w1, w2, w3, w4, w5, w6, w7):
            pass
        f0 = C.__dict__['m'] if kind != 'func' else ns['m']
        f0.__wrapped__ = wrapped_original
    where = {'interface': isrc.strip().split('\n')[0],
             'implementation': msrc.strip().split('\n')[0],
             'kind': case['kind'], 'tentative': tent,
             'why': unnone(case['why'])}
    if factory:
        def make():
            return None
        make.m = ns['m']
        if msrc_extra:
            make.m0 = ns['m0']
        implementer(I)(make)
        if not guard_binds(make.m, case['shapes'], False, src):
            return
        fut, cand = verifyClass, make
    elif kind == 'class':
        if not guard_binds(C.__dict__['m'], case['shapes'], True, src):
            return
        fut, cand = verifyClass, C
    else:
        if not guard_binds(ob.m, case['shapes'], False, src):
            return
        fut, cand = verifyObject, ob
    evaluations += 1
    got = run_verify(fut, I, cand, tent)
    exp = expected_outcome(case['expect'])
    if got != exp:
        mismatch(fut.__name__, exp, got, where)
    # the caller post-processes the interface method's report; verifying again
    # must conclude the same
    rep = I['m'].getSignatureInfo()
    for k in list(rep):
        del rep[k]
    evaluations += 1
    got = run_verify(fut, I, cand, tent)
    if got != exp:
        mismatch(fut.__name__ + ' (again, after the caller emptied the '
                 'report of the interface method)', exp, got, where)
    twin = case.get('twin')
    if twin:
        # the same function object under the other binding level
        f = C.__dict__['m'] if kind == 'class' else ns['m']
        extra = {'m0': ns['m0']} if msrc_extra and kind == 'func' else (
            {'m0': C.__dict__['m0']} if msrc_extra else {})
        if twin['kind'] == 'func':
            C2 = implementer(I)(type('C2', (object,), {}))
            cand2 = C2()
            cand2.m = f
            if extra:
                cand2.m0 = lambda *args, **kw: None
            fut2 = verifyObject
        else:
            C2 = implementer(I)(type('C2', (object,), dict(extra, m=f)))
            cand2 = C2
            fut2 = verifyClass
        evaluations += 1
        got2 = run_verify(fut2, I, cand2, tent)
        exp2 = expected_outcome(twin['expect'])
        if got2 != exp2:
            mismatch(fut2.__name__ + ' (the same function, other binding '
                     'level, looked at second)', exp2, got2,
                     dict(where, twin_kind=twin['kind']))


PAIR_SERIAL = [0]


class _Opaque(object):
    """Callable whose signature verify cannot get at."""

    def __call__(self, *args, **kw):
        return None


def replay_agg(case):
    global evaluations
    vtype, tent, declared = case['vtype'], case['tent'], case['declared']
    ns = namespace()
    ns['Attribute'] = __import__('zope.interface').interface.Attribute
    ns['opaque'] = _Opaque()
    base, own, cls, init = [], [], [], []
    for ai, a in enumerate(case['attrs']):
        # a one-word first argument is the description's __name__, not its
        # doc: the key the interface lists the attribute under is what counts
        doc = ('doc of %s' if ai % 2 else 'Docof%s') % a['name']
        (base if a['inbase'] else own).append(
            "    %s = Attribute(%r)\n" % (a['name'], doc))
        if a['st'] == 'present':
            if vtype == 'c':
                cls.append('    %s = 1\n' % a['name'])
            else:
                init.append('        self.%s = 1\n' % a['name'])
    ok = True
    guards = []
    for m in case['meths']:
        (base if m['inbase'] else own).append(
            render_def(m['name'], m['iparams'], indent='    '))
        st = m['st']
        if st == 'noncallable':
            cls.append('    %s = 42\n' % m['name'])
        elif st == 'opaque':
            cls.append('    %s = opaque\n' % m['name'])
        elif st == 'builtin':
            cls.append('    %s = len\n' % m['name'])
        elif st in ('good', 'bad'):
            cls.append(render_def(m['name'], m['mparams'], indent='    '))
            guards.append(m)
    src = ('class I0(Interface):\n' + (''.join(base) or '    pass\n') +
           'class I(I0):\n' + (''.join(own) or '    pass\n') +
           'class C(object):\n' + (''.join(cls) or '    pass\n') +
           '    def __init__(self):\n' + (''.join(init) or '        pass\n'))
    exec(src, ns)
    I, C = ns['I'], ns['C']
    for m in guards:
        attr = C.__dict__[m['name']] if vtype == 'c' else \
            getattr(C(), m['name'])
        ok = guard_binds(attr, m['shapes'], vtype == 'c', src) and ok
    if not ok:
        return
    exp = expected_outcome(case['expect'])
    where = {'declared': declared, 'tentative': tent, 'vtype': vtype,
             'attrs': {a['name']: a['st'] for a in case['attrs']},
             'meths': {m['name']: m['st'] for m in case['meths']}}
    variants = []
    if vtype == 'c':
        if declared:
            implementer(I)(C)
        variants.append(('verifyClass', verifyClass, C))
    else:
        if declared:
            ob = C()
            directlyProvides(ob, I)
            variants.append(('verifyObject (directlyProvides)',
                             verifyObject, ob))
            C2 = implementer(I)(type('C', (C,), {}))
            variants.append(('verifyObject (implementer)', verifyObject,
                             C2()))
        else:
            variants.append(('verifyObject', verifyObject, C()))
        # the candidate object may itself be a class (one that PROVIDES the
        # interface): its methods live on the metaclass, its attributes on
        # the class
        Meta = type('Meta', (type,), {
            k: v2 for k, v2 in C.__dict__.items()
            if k in [m['name'] for m in case['meths']]})
        K2 = Meta('K2', (), {})
        for a in case['attrs']:
            if a['st'] == 'present':
                setattr(K2, a['name'], 1)
        if declared:
            directlyProvides(K2, I)
        variants.append(('verifyObject (a class object as the candidate)',
                         verifyObject, K2))
    for name, fut, cand in variants:
        evaluations += 1
        got = run_verify(fut, I, cand, tent)
        if got != exp:
            mismatch(name, exp, got, dict(where, source=src))


REPLAY = {'c18': replay_c18, 'pairs': replay_pair, 'agg': replay_agg}[MODE]
for childlib.CASE[0], case in enumerate(job['cases']):
    current[0] = case
    REPLAY(case)

childlib.done({'evaluations': evaluations, 'mismatches': mismatches[:200],
               'n_mismatches': len(mismatches),
               'guard_failures': guard_failures[:20]})
