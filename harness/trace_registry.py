"""Code -> spec conformance for registries: record traces from the real code
(harness/record_registry.py) and validate them with spec/TraceRegistry.tla."""
import json
import os

from common import MachineryError, REPO, run_children, run_tlc, seed

PLAN = {'quick': dict(traces=30, events=60),
        'thorough': dict(traces=400, events=120)}
DOCTESTS = ['docs/adapter.rst', 'docs/human.rst', 'docs/foodforthought.rst']


def validate(build, v, pid, tier):
    plan = PLAN[tier]
    docs = [os.path.join(REPO, f) for f in DOCTESTS
            if os.path.exists(os.path.join(REPO, f))]
    jobs = []
    for k, implv in enumerate(('c', 'py')):
        jobs.append((implv, {'mode': 'random', 'traces': plan['traces'],
                             'events': plan['events'],
                             'seed': seed() * 7919 + k}))
        jobs.append((implv, {'mode': 'doctest', 'files': docs}))
    results = run_children(build, 'record_registry.py', jobs)
    for (implv, job), r in zip(jobs, results):
        label = 'recorded traces (%s, %s)' % (job['mode'], implv)
        if 'crash' in r:
            v.violation('%s %s: recorder crashed with signal %s' % (
                pid, label, r['crash']), r)
            continue
        traces = [t for t in r['traces'] if t['ev']]
        if not traces:
            continue
        path = os.path.join(build.dir, 'regtrace_%s_%s.ndjson' % (
            job['mode'], implv))
        with open(path, 'w') as f:
            for t in traces:
                f.write(json.dumps(t) + '\n')
        res = run_tlc('TraceRegistry', 'TraceRegistry', scratch=build.dir,
                      workers=1, env={'TRACE_FILE': path}, timeout=1800,
                      jvm='-Xss64m')
        v.add_tlc(res, 'trace validation: ' + label)
        nev = sum(len(t['ev']) for t in traces)
        v.notes.setdefault('recorded_traces', []).append({
            'source': label, 'traces': len(traces), 'events': nev,
            'doctests': r.get('notes')})
        if res.violated:
            import re
            m = re.search(r'mismatch = (<< ?"trace".*?>>)\s*/\\',
                          res.raw_tail, re.S)
            detail = m.group(1) if m else res.raw_tail[-1200:]
            v.violation('%s %s rejected by TraceRegistry: %s' % (
                pid, label, ' '.join(detail.split())[:900]),
                {'trace_tail': res.trace[-60:]})
        elif res.distinct != nev + len(traces):
            raise MachineryError(
                'trace validation consumed %d states for %d events in %d '
                'traces (%s)' % (res.distinct, nev, len(traces), label))
        else:
            v.cov['traces_validated_against_impl'] += len(traces)
            v.cov['evaluations'] += nev
            if job['mode'] == 'random':
                v.sample({'recorded trace (first events)':
                          [{k: e[k] for k in e if k not in
                            ('sro', 'sext', 'pext')} for e in
                           traces[0]['ev'][:8]]})
