"""C17 / C18: Signatures.tla checked by TLC over the signature grids; every
state (= one test case) replayed into the real fromFunction / fromMethod /
interface definition / ABCInterface / verifyObject / verifyClass under both
implementations."""
import json
import os
import sys
import threading

from common import (one_case, Build, MachineryError, Verdict, make_cfg, run_children,
                    run_tlc, shard, NCPU, VERIF)

SWITCHES = ('PinnedC18', 'PinnedC18Self', 'PinnedC18Abc')

BOUNDS = {
    'quick': {'MaxPO': 2, 'MaxPK': 3, 'MaxKO': 2, 'MaxLoc': 1, 'MaxTags': 1,
              'MaxReq': 3, 'MaxOpt': 2, 'NAttr': 2, 'NMeth': 3,
              'MStatuses': '<-CoreStatuses'},
    'thorough': {'MaxPO': 3, 'MaxPK': 4, 'MaxKO': 3, 'MaxLoc': 2,
                 'MaxTags': 2, 'MaxReq': 4, 'MaxOpt': 3, 'NAttr': 3,
                 'NMeth': 4, 'MStatuses': '<-AllStatuses'},
}
# the self-test of the switches uses a small grid: TLC stops at the first
# counterexample anyway
SELFTEST = {'MaxPO': 1, 'MaxPK': 2, 'MaxKO': 1, 'MaxLoc': 1, 'MaxTags': 0,
            'MaxReq': 1, 'MaxOpt': 1, 'NAttr': 1, 'NMeth': 1,
            'MStatuses': '<-CoreStatuses'}

MODES = {'C18': [('c18', ['DescribeIsTruth'])],
         'C17': [('pairs', ['IncompatIffUnbound', 'PairOutcome']),
                 ('agg', ['Aggregation'])]}


def constants(bounds, mode, on=()):
    c = {s: ('TRUE' if s in on else 'FALSE') for s in SWITCHES}
    c['Mode'] = '"%s"' % mode
    c.update(bounds)
    return c


def nontrivial(mode, case):
    if mode == 'c18':
        s = case['sig']
        return bool(s['ko'] or s['po'] or s['nd'] or s['bound'])
    if mode == 'pairs':
        return case['isig'] != case['msig']
    return case['expect']['n'] >= 2


def attach_twins(cases):
    """The SAME function object can be looked at with both binding levels:
    as a function found on a class (its first parameter receives self) and
    as a plain function attribute of an instance (no parameter is implied).
    Each reading is a case of the grid of its own; the replay verifies the
    function both ways, in sequence, and needs the other case's expectation
    (what was concluded about a function one way must not leak into the
    other)."""
    def key(isig, msig, kind, tent):
        return json.dumps([isig, msig, kind, tent], sort_keys=True)
    index = {key(c['isig'], c['msig'], c['kind'], c['tent']): c
             for c in cases}
    for c in cases:
        m = dict(c['msig'])
        if c['kind'] == 'class':
            m['req'] += 1
            other = 'func'
        elif c['kind'] == 'func' and m['req'] >= 1:
            m['req'] -= 1
            other = 'class'
        else:
            continue
        t = index.get(key(c['isig'], m, other, c['tent']))
        if t is not None:
            c['twin'] = {'kind': other, 'expect': t['expect']}


def parallel(thunks):
    out = [None] * len(thunks)
    errs = []

    def run(i):
        try:
            out[i] = thunks[i]()
        except BaseException as e:       # re-raised in the parent thread
            errs.append(e)
    ts = [threading.Thread(target=run, args=(i,)) for i in range(len(thunks))]
    for t in ts:
        t.start()
    for t in ts:
        t.join()
    if errs:
        raise errs[0]
    return out


def replay_file(pid, path):
    """Re-run the single case stored in a replays/<pid>-*.json file under
    both implementations against the current tree."""
    if not os.path.exists(path):     # check.py runs us with cwd=harness
        path = os.path.join(VERIF, path)
    with open(path) as f:
        rec = json.load(f)['record']
    if 'case' not in rec:
        raise MachineryError('%s carries no case to replay' % path)
    rc = 0
    with Build() as build:
        jobs = [(impl, {'mode': rec['mode'], 'cases': [rec['case']]})
                for impl in ('c', 'py')]
        for (impl, _), r in zip(jobs, run_children(
                build, 'replay_signatures.py', jobs)):
            if r.get('guard_failures'):
                raise MachineryError(json.dumps(r['guard_failures'][:3]))
            if 'crash' in r or r['mismatches']:
                rc = 1
                for m in r.get('mismatches', [r]):
                    m.pop('case', None)
                    print('VIOLATION property=%s replay=%s' % (pid, path))
                    print('  ' + json.dumps(m, sort_keys=True)[:600])
            else:
                print('%s: case passes (%d evaluations)'
                      % (impl, r['evaluations']))
    return rc


def main(pid, tier):
    v = Verdict(pid, tier)
    bounds = BOUNDS[tier]
    if pid == 'C18':
        v.cov['rule'] = (
            'cases = states of MC_Signatures Mode="c18": every signature of '
            'the grid (positional-only, positional-or-keyword, trailing '
            'defaults, *args, keyword-only with/without default, **kwargs, '
            'locals, function attributes) x the way it is described '
            '(fromFunction / interface definition; fromMethod / '
            'fromFunction(imlevel=1); ABCInterface); each exec\'ed and '
            'described by the real code; non-trivial = has keyword-only or '
            'positional-only parameters, defaults, or a leading self')
        v.assumptions = [
            'bounded grid (see tlc_runs constants); parameter names and '
            'default values are generated, annotations are not modelled',
            'a method without positional parameter and without *args cannot '
            'be bound (inspect.signature raises ValueError): outside the '
            'universe',
            'keyword-only parameters are not part of getSignatureInfo(); the '
            'property only demands that they do not disturb the rest',
            'CPython code-object layout (co_varnames) as modelled by '
            'Layout(sig); checked against the real code object on every '
            'case (guard)',
            'TLC, CommunityModules Json, harness/replay_signatures.py '
            'source renderer trusted (renderer cross-checked by the '
            'inspect.signature guard)']
    else:
        v.cov['rule'] = (
            'cases = states of MC_Signatures Mode="pairs" (interface '
            'signature x implementation signature x {function attribute, '
            'bound method, verifyClass} x tentative) and Mode="agg" '
            '(candidates with any subset of: undeclared, missing attributes, '
            'missing / non-callable / un-introspectable / conforming / '
            'non-conforming methods, own or inherited, object or class, '
            'tentative or not); each built and verified by the real code; '
            'non-trivial = implementation signature differs from the '
            'interface\'s (pairs), >= 2 failures expected (agg)')
        v.assumptions = [
            'bounded grid (see tlc_runs constants)',
            'scope follows the quantifier: required / defaulted positionals, '
            '*args, **kwargs on both sides; keyword-only and positional-only '
            'parameters of the implementation, calls passing declared '
            'parameters by keyword and parameter NAMES are not decided by '
            'the statement and are outside the universe',
            'admitted surplus positionals are represented by every count up '
            'to MaxReq+MaxOpt+2 (more than any implementation of the grid '
            'has slots); arbitrary keywords by one keyword matching no '
            'parameter',
            'a missing non-method attribute is not an error for verifyClass '
            '(documented design); staticmethod / property candidates and '
            'Zope-2 MethodTypes patching are outside the universe',
            'Binds (Python binding rule) checked against '
            'inspect.signature(impl).bind on every admitted shape (guard)',
            'TLC, CommunityModules Json, harness/replay_signatures.py '
            'trusted']
    exhaustive = True
    with Build() as build:
        # ---- TLC: shipped spec over the grid(s), plus the switch self-test
        def shipped(mode, invs):
            cfg = make_cfg(build.dir, 'sig_' + mode,
                           constants(bounds, mode),
                           invariants=invs + ['Dump'])
            return run_tlc('MC_Signatures', cfg, scratch=build.dir,
                           workers=max(2, NCPU // len(MODES[pid])))

        def pinned(sw):
            cfg = make_cfg(build.dir, 'sig_' + sw,
                           constants(SELFTEST, 'c18', on=(sw,)),
                           invariants=['DescribeIsTruth'])
            return run_tlc('MC_Signatures', cfg, scratch=build.dir,
                           workers=1)
        thunks = [(lambda m=m, i=i: shipped(m, i)) for m, i in MODES[pid]]
        if pid == 'C18':
            thunks += [(lambda s=s: pinned(s)) for s in SWITCHES]
        results = parallel(thunks)
        if pid == 'C18':
            for sw, res in zip(SWITCHES, results[len(MODES[pid]):]):
                v.notes.setdefault('switch_selftest', {})[sw] = res.violated
                if res.violated != 'DescribeIsTruth':
                    raise MachineryError(
                        'self-test: with %s=TRUE TLC must refute '
                        'DescribeIsTruth, got %r' % (sw, res.violated))
        for (mode, invs), res in zip(MODES[pid], results):
            name = 'Mode=%s %s' % (mode, json.dumps(bounds, sort_keys=True))
            v.add_tlc(res, name)
            if res.violated:
                raise MachineryError(
                    'model-level violation of %s in %s (the specification '
                    'of the mechanism does not satisfy the property):\n%s'
                    % (res.violated, name, '\n'.join(res.trace[:60])))
            cases = res.lines
            if len(cases) != res.distinct:
                raise MachineryError('dump incomplete: %d lines for %d states'
                                     % (len(cases), res.distinct))
            v.cov['distinct_nontrivial'] += sum(
                1 for c in cases if nontrivial(mode, c))
            if mode == 'pairs':
                attach_twins(cases)
            # ---- replay every case under both implementations
            jobs = []
            for impl in ('c', 'py'):
                for sh in shard(cases, max(1, NCPU // 2)):
                    jobs.append((impl, {'mode': mode, 'cases': sh}))
            for (impl, job), r in zip(jobs, run_children(
                    build, 'replay_signatures.py', jobs)):
                if 'crash' in r:
                    v.violation('%s %s replay crashed with signal %s (%s)'
                                % (pid, mode, r['crash'], impl), r)
                    exhaustive = False
                    continue
                if r['guard_failures']:
                    raise MachineryError(
                        'the specification disagrees with CPython '
                        '(inspect / code object): '
                        + json.dumps(r['guard_failures'][:3]))
                v.cov['evaluations'] += r['evaluations']
                for m in r['mismatches']:
                    sig = '%s %s %s expected=%s got=%s ctx=%s' % (
                        pid, m['impl'], m['what'],
                        json.dumps(m['expected'], sort_keys=True),
                        json.dumps(m['got'], sort_keys=True),
                        json.dumps({k: x for k, x in m['ctx'].items()
                                    if k != 'source' or mode == 'c18'},
                                   sort_keys=True))
                    v.violation(sig, m, one_case(
                        'replay_signatures.py', impl, job, m))
            v.cov['traces_validated_against_impl'] += 2 * len(cases)
            c = cases[len(cases) // 2]
            if mode == 'c18':
                v.sample({'mode': mode, 'params': c['params'],
                          'ctx': c['ctx'], 'expect': c['expect'],
                          'sigstr': c['sigstr']})
            elif mode == 'pairs':
                v.sample({'mode': mode, 'isig': c['isig'], 'msig': c['msig'],
                          'kind': c['kind'], 'why': c['why'],
                          'expect': c['expect']})
            else:
                v.sample({'mode': mode, 'declared': c['declared'],
                          'tent': c['tent'], 'vtype': c['vtype'],
                          'attrs': [a['st'] for a in c['attrs']],
                          'meths': [m['st'] for m in c['meths']],
                          'expect': c['expect']})
    v.cov['exhaustive'] = exhaustive
    return v.finish()


if __name__ == '__main__':
    try:
        if '--replay' in sys.argv:
            sys.exit(replay_file(sys.argv[1],
                                 sys.argv[sys.argv.index('--replay') + 1]))
        sys.exit(main(sys.argv[1], sys.argv[2]))
    except MachineryError as e:
        print('MACHINERY FAILURE: %s' % e)
        sys.exit(2)
