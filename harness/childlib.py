"""Imported first by every child script: binds to the scratch build, checks
which implementation is active, reads the job."""
import json
import os
import sys


CASE = [None]     # index of the case being replayed (for replay files)


def boot():
    exp = os.environ['VERIF_EXPECT_SRC']
    impl = os.environ['VERIF_IMPL']
    import zope.interface
    import zope.interface.adapter as a
    if not os.path.abspath(zope.interface.__file__).startswith(exp):
        sys.stderr.write('wrong zope.interface bound: %s (expected under %s)\n'
                         % (zope.interface.__file__, exp))
        sys.exit(3)
    mod = a.LookupBase.__module__
    want = ('zope.interface._zope_interface_coptimizations'
            if impl == 'c' else 'zope.interface.adapter')
    if mod.split('.')[-1] != want.split('.')[-1]:
        sys.stderr.write('wrong implementation bound: %s (wanted %s)\n'
                         % (mod, impl))
        sys.exit(3)
    return impl


def job():
    return json.loads(sys.stdin.read())


def done(result):
    sys.stdout.write(json.dumps(result, default=str))
    sys.stdout.flush()
